#!/bin/sh
# builds the gocv verifier offline from files on disk only
set -e
cd "$(dirname "$0")/gocv"
export GOFLAGS=-mod=mod GOPROXY=off 
go build -o ../bin/gocv . 
