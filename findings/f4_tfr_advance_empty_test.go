package scorch

// Reproduction of finding F4 (property C08): IndexSnapshotTermFieldReader.Advance on a snapshot
// without segments indexes is.offsets[-1] in segmentIndexAndLocalDocNumFromGlobal and panics
// instead of reporting "no match at or after the target".
// Run (from /repo): see /verif/findings/README.md

import (
	"context"
	"testing"

	index "github.com/blevesearch/bleve_index_api"
)

func TestVerifF4AdvanceOnEmptyIndex(t *testing.T) {
	cfg := CreateConfig("TestVerifF4AdvanceOnEmptyIndex")
	if err := InitTest(cfg); err != nil {
		t.Fatal(err)
	}
	defer func() { _ = DestroyTest(cfg) }()
	analysisQueue := index.NewAnalysisQueue(1)
	idx, err := NewScorch(Name, cfg, analysisQueue)
	if err != nil {
		t.Fatal(err)
	}
	if err = idx.Open(); err != nil {
		t.Fatal(err)
	}
	defer func() { _ = idx.Close() }()
	r, err := idx.Reader()
	if err != nil {
		t.Fatal(err)
	}
	defer func() { _ = r.Close() }()
	tfr, err := r.TermFieldReader(context.TODO(), []byte("x"), "f", false, false, false)
	if err != nil {
		t.Fatal(err)
	}
	defer func() {
		if p := recover(); p != nil {
			t.Fatalf("Advance on an empty index panicked: %v", p)
		}
	}()
	d, err := tfr.Advance(index.NewIndexInternalID(nil, 3), nil)
	if err != nil || d != nil {
		t.Fatalf("expected (nil, nil), got (%v, %v)", d, err)
	}
}
