package searcher

// Reproduction of finding F8 (C07, open): place in /repo/search/searcher and run
//   go test -vet=off -count=1 -run TestFindingF8 ./search/searcher
// On the pinned tree it fails: termRange.Enumerate steps through all 256 values of every byte
// (incrementBytes), although the bytes of a prefix-coded term after the shift byte carry 7 bits.
// A range whose two ends differ in more than the last 7-bit group - here the two neighbouring
// float64 values pred(1.0) and 1.0, which splitInt64Range returns as ONE range at shift 0 - makes it
// visit about 256^7 byte strings that are not terms: the numeric range query does not finish.

import (
	"math"
	"testing"
	"time"

	"github.com/blevesearch/bleve/v2/numeric"
)

func TestFindingF8EnumerateCarry(t *testing.T) {
	lo := math.Nextafter(1.0, 0)
	ranges := splitInt64Range(numeric.Float64ToInt64(lo), numeric.Float64ToInt64(1.0), 4)
	done := make(chan int, 1)
	go func() {
		n := 0
		filter := func(term []byte) bool { n++; return false }
		ranges.Enumerate(filter)
		done <- n
	}()
	select {
	case n := <-done:
		if n > 64 {
			t.Fatalf("visited %d candidate terms for a range of two values", n)
		}
	case <-time.After(5 * time.Second):
		t.Fatalf("Enumerate did not finish in 5s for a range of two values")
	}
}
