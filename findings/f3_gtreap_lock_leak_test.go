package gtreap

// Reproduction of finding F3 (property C15): Writer.ExecuteBatch returns with the store mutex
// held when the merge operator reports failure (every later Reader()/ExecuteBatch blocks forever),
// and merges of the failed batch that were processed before the failing one stay applied.

import (
	"testing"
	"time"
)

type failingMO struct{ failKey string }

func (m *failingMO) FullMerge(key, existingValue []byte, operands [][]byte) ([]byte, bool) {
	if string(key) == m.failKey {
		return nil, false
	}
	return []byte("merged"), true
}
func (m *failingMO) PartialMerge(key, leftOperand, rightOperand []byte) ([]byte, bool) {
	return nil, false
}
func (m *failingMO) Name() string { return "failing" }

func TestVerifF3LockReleasedAndBatchAtomic(t *testing.T) {
	for round := 0; round < 40; round++ {
		s, err := New(&failingMO{failKey: "b"}, map[string]interface{}{"path": ""})
		if err != nil {
			t.Fatal(err)
		}
		w, _ := s.Writer()
		b := w.NewBatch()
		b.Merge([]byte("a"), []byte("x"))
		b.Merge([]byte("b"), []byte("x"))
		b.Merge([]byte("c"), []byte("x"))
		if err := w.ExecuteBatch(b); err == nil {
			t.Fatal("expected the batch to fail")
		}
		done := make(chan struct{})
		var keys int
		go func() {
			r, _ := s.Reader()
			it := r.RangeIterator(nil, nil)
			for ; it.Valid(); it.Next() {
				keys++
			}
			_ = it.Close()
			_ = r.Close()
			close(done)
		}()
		select {
		case <-done:
		case <-time.After(2 * time.Second):
			t.Fatal("store mutex still held after a failed batch: Reader() blocks")
		}
		if keys != 0 {
			t.Fatalf("a failed batch left %d of its merges applied", keys)
		}
	}
}
