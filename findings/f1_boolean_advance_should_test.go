package searcher

// Reproduction of finding F1 (property C08): BooleanSearcher.Advance re-advances the should child
// to the target even when that child is already at or beyond the target. A compound child
// (disjunction, conjunction, phrase) cannot deliver again a match it has already delivered, so a
// match at the target is lost: Advance(7) as the first call on must={5,10}, should(min 1)={10,11}
// returns nothing, while the Next-only enumeration returns 10.

import (
	"context"
	"testing"

	"github.com/blevesearch/bleve/v2/search"
	index "github.com/blevesearch/bleve_index_api"
)

// a searcher over a fixed ascending id list that honours the Searcher contract the way compound
// searchers do: it only moves forward; a target at or before its cursor does not rewind it
type listSearcher struct {
	ids []uint64
	pos int
	min int
}

func (l *listSearcher) mk(ctx *search.SearchContext, n uint64) *search.DocumentMatch {
	dm := ctx.DocumentMatchPool.Get()
	dm.IndexInternalID = index.NewIndexInternalID(dm.IndexInternalID, n)
	dm.Score = 1
	return dm
}
func (l *listSearcher) Next(ctx *search.SearchContext) (*search.DocumentMatch, error) {
	if l.pos >= len(l.ids) {
		return nil, nil
	}
	l.pos++
	return l.mk(ctx, l.ids[l.pos-1]), nil
}
func (l *listSearcher) Advance(ctx *search.SearchContext, ID index.IndexInternalID) (*search.DocumentMatch, error) {
	t := ID.Value()
	for l.pos < len(l.ids) && l.ids[l.pos] < t {
		l.pos++
	}
	return l.Next(ctx)
}
func (l *listSearcher) Close() error               { return nil }
func (l *listSearcher) Weight() float64            { return 1 }
func (l *listSearcher) SetQueryNorm(float64)       {}
func (l *listSearcher) Count() uint64              { return uint64(len(l.ids)) }
func (l *listSearcher) Min() int                   { return l.min }
func (l *listSearcher) Size() int                  { return 0 }
func (l *listSearcher) DocumentMatchPoolSize() int { return 1 }

func TestVerifF1BooleanAdvanceKeepsShouldMatch(t *testing.T) {
	run := func(advanceFirst bool) []uint64 {
		must := &listSearcher{ids: []uint64{5, 10}}
		should := &listSearcher{ids: []uint64{10, 11}, min: 1}
		bs, err := NewBooleanSearcher(context.TODO(), nil, must, should, nil, search.SearcherOptions{})
		if err != nil {
			t.Fatal(err)
		}
		ctx := &search.SearchContext{DocumentMatchPool: search.NewDocumentMatchPool(bs.DocumentMatchPoolSize(), 0)}
		var got []uint64
		var dm *search.DocumentMatch
		if advanceFirst {
			dm, err = bs.Advance(ctx, index.NewIndexInternalID(nil, 7))
		} else {
			dm, err = bs.Next(ctx)
		}
		for err == nil && dm != nil {
			got = append(got, dm.IndexInternalID.Value())
			ctx.DocumentMatchPool.Put(dm)
			dm, err = bs.Next(ctx)
		}
		if err != nil {
			t.Fatal(err)
		}
		return got
	}
	all := run(false)
	if len(all) != 1 || all[0] != 10 {
		t.Fatalf("Next-only enumeration: got %v, want [10]", all)
	}
	adv := run(true)
	if len(adv) != 1 || adv[0] != 10 {
		t.Fatalf("Advance(7) then Next: got %v, want [10] (the match at 10 was lost)", adv)
	}
}
