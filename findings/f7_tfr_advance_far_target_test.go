package bleve

import (
	"context"
	"encoding/binary"
	"testing"

	index "github.com/blevesearch/bleve_index_api"
)

// F7: a term field reader (and so a term searcher) advanced to a target whose local doc number
// in the last segment does not fit 32 bits returns documents BEFORE the target.
func TestF7AdvanceFarBeyond(t *testing.T) {
	idx, err := NewUsing("", NewIndexMapping(), "scorch", "scorch", nil)
	if err != nil {
		t.Fatal(err)
	}
	defer idx.Close()
	for _, id := range []string{"a", "b", "c"} {
		if err := idx.Index(id, map[string]interface{}{"f": "hello world"}); err != nil {
			t.Fatal(err)
		}
	}
	adv, err := idx.Advanced()
	if err != nil {
		t.Fatal(err)
	}
	r, err := adv.Reader()
	if err != nil {
		t.Fatal(err)
	}
	defer r.Close()
	for _, target := range []uint64{1<<32 + 2, 1<<33 + 2, 1<<40 + 2} {
		tfr, err := r.TermFieldReader(context.Background(), []byte("hello"), "f", false, false, false)
		if err != nil {
			t.Fatal(err)
		}
		id := make([]byte, 8)
		binary.BigEndian.PutUint64(id, target)
		tfd, err := tfr.Advance(index.IndexInternalID(id), nil)
		if err != nil {
			t.Fatal(err)
		}
		if tfd != nil {
			got := binary.BigEndian.Uint64(tfd.ID)
			if got < target {
				t.Errorf("Advance(%d) returned id %d, which is before the target", target, got)
			}
		}
		tfr.Close()
	}
}
