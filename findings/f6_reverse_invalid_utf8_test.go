package reverse

// Reproduction of finding F6 (property C19): the reverse token filter computes byte widths with
// utf8.RuneLen of the decoded runes; an invalid UTF-8 byte decodes to U+FFFD (RuneLen 3) but
// occupies one byte, so the output cursor goes negative and the filter panics.

import (
	"testing"

	"github.com/blevesearch/bleve/v2/analysis"
)

func TestVerifF6ReverseInvalidUTF8(t *testing.T) {
	defer func() {
		if p := recover(); p != nil {
			t.Fatalf("reverse filter panicked on invalid UTF-8: %v", p)
		}
	}()
	f := NewReverseFilter()
	in := analysis.TokenStream{&analysis.Token{Term: []byte("a\xffb"), Start: 0, End: 3, Position: 1}}
	out := f.Filter(in)
	if len(out) != 1 || len(out[0].Term) != 3 {
		t.Fatalf("unexpected output %v", out)
	}
	if string(out[0].Term) != "b\xffa" {
		t.Fatalf("expected bytes reversed rune-wise, got %q", out[0].Term)
	}
}
