#!/bin/bash
# confirm_seeded.sh <ID> <k> <srcdir>
# Confirms a seeded defect produced by an independent sub-agent in a scratch worktree of /repo
# (outside /repo and /verif): it must build, the existing tests of the affected packages must pass
# with it, its demonstration must FAIL with it and PASS without it. On success the defect is stored
# under /verif/seeded/<ID>-m<k>/ (patch.diff, demo test, meta.json).
set -u
ID=$1; K=$2; SRC=$3
export GOFLAGS=-mod=mod GOPROXY=off
WT=/tmp/confirm/$ID-m$K
OUT=/verif/seeded/$ID-m$K
mkdir -p /tmp/confirm
rm -rf "$WT"; git -C /repo worktree prune
BASE=$(git -C /repo rev-list --max-parents=0 HEAD | tail -1)
git -C /repo worktree add --detach "$WT" "$BASE" >/dev/null 2>&1 || { echo "worktree failed"; exit 2; }
export TMPDIR=/tmp/confirm/tmp-$ID-$K; mkdir -p "$TMPDIR"
cd "$WT"
PATCH=$SRC/m$K.patch.diff; DEMO=$SRC/m${K}_demo_test.go; META=$SRC/m$K.meta.json
PKGDIR=$(python3 -c "import json;print(json.load(open('$META'))['demo_package_dir'])" 2>/dev/null || head -1 "$DEMO" | sed 's/.*place in: *//')
PKGDIR=${PKGDIR#./}; [ -z "$PKGDIR" ] && PKGDIR=.
cp "$DEMO" "$WT/$PKGDIR/zz_seeded_demo_test.go"
res() { echo "$1" >> "$TMPDIR/log"; }
# 1. demo passes on the unmodified tree
go test -vet=off -count=1 -run "TestSeeded_${ID}_m$K" "./$PKGDIR" > "$TMPDIR/demo_clean.txt" 2>&1; DC=$?
# 2. apply the defect
git apply "$PATCH" || { echo "patch does not apply"; exit 2; }
go build ./... > "$TMPDIR/build.txt" 2>&1; B=$?
go test -vet=off -count=1 -run "TestSeeded_${ID}_m$K" "./$PKGDIR" > "$TMPDIR/demo_mut.txt" 2>&1; DM=$?
# 3. the existing suite (whole module) with the defect, demo excluded
rm -f "$WT/$PKGDIR/zz_seeded_demo_test.go"
go test -vet=off -count=1 ./... > "$TMPDIR/suite.txt" 2>&1; S=$?
FAILS=$(grep -c "^FAIL\|^--- FAIL" "$TMPDIR/suite.txt")
OK=no
if [ $DC -eq 0 ] && [ $B -eq 0 ] && [ $DM -ne 0 ] && [ $S -eq 0 ]; then OK=yes; fi
echo "ID=$ID m$K demo_clean_rc=$DC build_rc=$B demo_mut_rc=$DM suite_rc=$S suite_fail_lines=$FAILS confirmed=$OK"
if [ $OK = yes ]; then
  mkdir -p "$OUT"
  cp "$PATCH" "$OUT/patch.diff"; cp "$DEMO" "$OUT/demo_test.go"
  python3 - "$META" "$OUT/meta.json" "$ID" "$K" "$PKGDIR" <<'EOF'
import json,sys
m=json.load(open(sys.argv[1]))
out={"property":sys.argv[3],"source":"independent sub-agent, given only the property text and a scratch worktree",
 "files_changed":m.get("files_changed"),"what_it_breaks":m.get("what_it_breaks"),"needs_to_manifest":m.get("needs_to_manifest"),
 "demo_package_dir":sys.argv[5],"demo_test":"TestSeeded_%s_m%s"%(sys.argv[3],sys.argv[4]),
 "confirmed_by":"tools/confirm_seeded.sh in a scratch worktree of the pinned commit: demo passes unmodified; with patch: go build ./... ok, demo fails, go test -vet=off -count=1 ./... passes (demo excluded)"}
json.dump(out,open(sys.argv[2],"w"),indent=1)
EOF
fi
[ $OK = yes ] || { grep -n "^FAIL\|^--- FAIL\|^panic" "$TMPDIR/suite.txt" | head -8; }
cd /; git -C /repo worktree remove --force "$WT"; rm -rf "$TMPDIR"
