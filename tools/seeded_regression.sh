#!/bin/bash
# seeded_regression.sh [<seeded-id> ...]
# Must-fail corpus: applies each seeded change under /verif/seeded/<id>/ to /repo (patch_on_head.diff
# when the change was written against an earlier tree, else patch.diff), runs the quick check of the
# property it breaks, undoes the change, and compares the outcome with seeded/EXPECTED.json
# ("caught": the check must exit 1 with a VIOLATION line; "not-caught": recorded gap, exit 0 expected).
# Run after every engine or shared-contract change. /repo must be clean when it starts.
set -u
cd /verif
[ -z "$(git -C /repo status --porcelain)" ] || { echo "/repo is not clean"; exit 2; }
ids="$*"; [ -n "$ids" ] || ids=$(ls seeded | grep -v EXPECTED)
bad=0
for id in $ids; do
  prop=${id%%-*}
  patch=seeded/$id/patch_on_head.diff; [ -f "$patch" ] || patch=seeded/$id/patch.diff
  want=$(python3 -c "import json;print(json.load(open('seeded/EXPECTED.json')).get('$id','?'))")
  if ! git -C /repo apply --check "/verif/$patch" 2>/dev/null; then echo "$id: patch does not apply to the current tree (want=$want)"; bad=1; continue; fi
  git -C /repo apply "/verif/$patch"
  out=$(./check "$prop" quick 2>&1); rc=$?
  git -C /repo checkout -- . ; git -C /verif checkout -- evidence 2>/dev/null
  got=not-caught; [ $rc -eq 1 ] && echo "$out" | grep -q "^VIOLATION property=$prop " && got=caught
  line=$(echo "$out" | grep "^VIOLATION" | head -1 | cut -c1-220)
  if [ "$got" = "$want" ]; then echo "$id: $got (as expected) $line"; else echo "$id: $got BUT EXPECTED $want $line"; bad=1; fi
done
exit $bad
