#!/usr/bin/env python3
"""Regenerates MANIFEST.json from manifest_src.json (claims) + git log of /repo hook commits."""
import json, subprocess, sys
src = json.load(open('/verif/manifest_src.json'))
ids = [json.loads(l)['id'] for l in open('/verif/properties.jsonl')]
commits = subprocess.run(['git','-C','/repo','log','--format=%H %s','983fbe8..HEAD'],capture_output=True,text=True).stdout.strip().split('\n')
hook = [c.split()[0] for c in commits if c and ' verif:' in ' '+c.split(' ',1)[1][:8] or (c and c.split(' ',1)[1].startswith('verif:'))]
m = {"version":1,"setup_cmd":"./setup.sh",
 "hooks":{"guard":"verif","enable":"contracts and ghost lemma functions live in zz_verif_*.go files behind //go:build verif; gocv loads the packages with -tags=verif","baseline_off_cmd":"cd /repo && GOFLAGS=-mod=mod GOPROXY=off go test -vet=off -count=1 ./...","source_commits":list(reversed(hook)),"add_only":True},
 "engines":[{"name":"gocv","path":"/verif/gocv","serves_properties":[c['property_id'] for c in src['checks']],"kind_free_text":"self-written verification-condition generator for Go: forward symbolic execution of the typed AST of /repo's current tree, contracts as //@ comments in zz_verif_*.go, one SMT obligation per proof obligation, discharged by z3 4.8.12 / z3-new 5.1.0 / cvc5 1.0"}],
 "checks":[], "not_applicable":[]}
claimed=set()
for c in src['checks']:
    pid=c['property_id']; claimed.add(pid)
    m['checks'].append({"property_id":pid,"quick_cmd":f"./check {pid} quick","thorough_cmd":f"./check {pid} thorough","evidence_file":f"/verif/evidence/{pid}.json",
      "replay_cmd_template":"cat {path}","engine":"gocv",
      "level_claimed":{"category":"proof","text":c['text'],"design_ref":c.get('design_ref','DESIGN.md section 4/'+pid)},
      "level_note":c['level_note'],"technique":c.get('technique',"contract-based deductive verification: weakest-precondition style VCs generated from the Go AST, discharged by SMT (z3/cvc5)")})
for i in ids:
    if i not in claimed:
        m['not_applicable'].append({"property_id":i,"reason":src['not_applicable'].get(i,"contracts not yet built (see DESIGN.md section 3 for the plan); not claimed")})
m['notes']=src.get('notes','')
json.dump(m,open('/verif/MANIFEST.json','w'),indent=1)
print("checks:",len(m['checks']),"hook commits:",len(m['hooks']['source_commits']))
