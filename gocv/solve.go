package main

// SMT script generation and the solver portfolio.

import (
	"bytes"
	"context"
	"fmt"
	"os"
	"os/exec"
	"regexp"
	"sort"
	"strings"
	"sync"
	"time"
)

var identRe = regexp.MustCompile(`[A-Za-z_$!.][A-Za-z0-9_$!.\-]*`)

// declNames extracts the names a declaration line introduces.
func declNames(line string) []string {
	toks := identRe.FindAllString(line, -1)
	if len(toks) < 2 {
		return nil
	}
	switch toks[0] {
	case "declare-const", "declare-fun", "declare-sort", "define-fun":
		return toks[1:2]
	case "declare-datatypes":
		// sort name, constructor and selectors: every identifier that is not a known sort keyword
		var out []string
		for _, t := range toks[1:] {
			switch t {
			case "Int", "Bool", "Array", "BitVec", "_", "Str", "Real":
				continue
			}
			out = append(out, t)
		}
		return out
	}
	return nil
}

// buildScript assembles the SMT-LIB script for an obligation with only the declarations it needs.
func buildScript(decls []string, axioms []string, o *Obl, forCVC5 bool, slice bool, mode Mode) string {
	body := make([]string, 0, len(o.PC)+2)
	var extraDecls []string
	if o.Expect == "sat" {
		// vacuity guard: is the whole path condition satisfiable?
		for _, c := range o.PC {
			if c != "true" {
				body = append(body, "(assert "+c+")")
			}
		}
	} else {
		// cone of influence: keep only the hypotheses that (transitively) share a symbol with the goal.
		// Dropping hypotheses can only make the obligation harder, never unsound.
		pcs, goal := o.PC, o.Goal
		if !o.NoPre {
			declSorts := map[string]string{}
			for _, d := range decls {
				if strings.HasPrefix(d, "(declare-const ") {
					rest := d[len("(declare-const ") : len(d)-1]
					if i := strings.Index(rest, " "); i > 0 {
						declSorts[rest[:i]] = rest[i+1:]
					}
				}
			}
			pcs, goal, extraDecls = preprocess(o.PC, o.Goal, mode, declSorts)
		}
		syms := map[string]bool{}
		for _, t := range identRe.FindAllString(goal, -1) {
			if strings.ContainsAny(t, "!") || strings.HasPrefix(t, "H0_") || strings.HasPrefix(t, "uf_") || strings.HasPrefix(t, "app") || strings.HasPrefix(t, "pure") {
				syms[t] = true
			}
		}
		toks := make([][]string, len(pcs))
		for i, c := range pcs {
			for _, t := range identRe.FindAllString(c, -1) {
				if strings.ContainsAny(t, "!") || strings.HasPrefix(t, "H0_") || strings.HasPrefix(t, "uf_") || strings.HasPrefix(t, "app") || strings.HasPrefix(t, "pure") {
					toks[i] = append(toks[i], t)
				}
			}
		}
		keep := make([]bool, len(pcs))
		if len(syms) == 0 || !slice {
			// reachability goal ("false"): the whole path condition matters
			for i := range keep {
				keep[i] = true
			}
		}
		// depth-limited slicing (o.SliceDepth > 0): breadth-first, at most that many rounds, and
		// symbols occurring in a large share of the hypotheses ("hubs": the receiver, initial heap
		// arrays) do not pull hypotheses in. Any subset of the hypotheses is sound for an unsat answer.
		hub := map[string]bool{}
		if o.SliceDepth > 0 && slice {
			cnt := map[string]int{}
			for i := range pcs {
				seen := map[string]bool{}
				for _, t := range toks[i] {
					if !seen[t] {
						seen[t] = true
						cnt[t]++
					}
				}
			}
			lim := len(pcs) / 6
			if lim < 8 {
				lim = 8
			}
			for t, c := range cnt {
				if c > lim {
					hub[t] = true
				}
			}
		}
		round := 0
		for changed := true; changed; {
			if o.SliceDepth > 0 && slice && round >= o.SliceDepth {
				break
			}
			round++
			changed = false
			var fresh []string
			for i := range pcs {
				if keep[i] {
					continue
				}
				hit := len(toks[i]) == 0 // closed facts (no symbols) are kept
				for _, t := range toks[i] {
					if syms[t] && !hub[t] {
						hit = true
						break
					}
				}
				if hit {
					keep[i] = true
					changed = true
					fresh = append(fresh, toks[i]...)
				}
			}
			for _, t := range fresh {
				syms[t] = true
			}
		}
		for i, c := range pcs {
			if keep[i] && c != "true" {
				body = append(body, "(assert "+c+")")
			}
		}
		body = append(body, "(assert (not "+goal+"))")
	}
	needed := map[string]bool{}
	addToks := func(s string) {
		for _, t := range identRe.FindAllString(s, -1) {
			needed[t] = true
		}
	}
	for _, b := range body {
		addToks(b)
	}
	// axioms are included when they mention a needed symbol (string literals, order axioms)
	inclAx := make([]bool, len(axioms))
	inclDecl := make([]bool, len(decls))
	names := make([][]string, len(decls))
	for i, d := range decls {
		names[i] = declNames(d)
	}
	for changed := true; changed; {
		changed = false
		for i, a := range axioms {
			if inclAx[i] {
				continue
			}
			gdef := strings.Contains(a, ":named gdef")
			for _, t := range identRe.FindAllString(a, -1) {
				if gdef && needed[t] && strings.Contains(t, "!") {
					// definition of an intermediate constant of a package-level initial value
					inclAx[i] = true
					addToks(a)
					changed = true
					break
				}
				if needed[t] && (strings.HasPrefix(t, "strlit_") || t == "str_lt" || strings.HasPrefix(t, "fn_") || strings.HasPrefix(t, "uf_") || strings.HasPrefix(t, "gbase_")) {
					inclAx[i] = true
					addToks(a)
					changed = true
					break
				}
			}
		}
		for i, d := range decls {
			if inclDecl[i] {
				continue
			}
			for _, n := range names[i] {
				if needed[n] {
					inclDecl[i] = true
					addToks(d)
					changed = true
					break
				}
			}
		}
	}
	var sb strings.Builder
	sb.WriteString("(set-option :produce-models true)\n")
	if forCVC5 {
		sb.WriteString("(set-logic ALL)\n")
	}
	for i, d := range decls {
		if inclDecl[i] {
			sb.WriteString(d)
			sb.WriteByte('\n')
		}
	}
	for _, d := range extraDecls {
		sb.WriteString(d)
		sb.WriteByte('\n')
	}
	{
		// bases of lookup tables are introduced lazily (possibly after this obligation was recorded);
		// the axioms about them are global, so declare the ones the included axioms mention
		have := map[string]bool{}
		for i := range decls {
			if inclDecl[i] {
				for _, n := range names[i] {
					have[n] = true
				}
			}
		}
		var miss []string
		for t := range needed {
			if strings.HasPrefix(t, "gbase_") && !have[t] {
				miss = append(miss, t)
			}
		}
		sort.Strings(miss)
		for _, t := range miss {
			sb.WriteString("(declare-const " + t + " Int)\n")
		}
		// likewise string literals first met after this obligation was recorded (their axioms
		// relate them to the earlier ones)
		var missS []string
		for t := range needed {
			if strings.HasPrefix(t, "strlit_") && !have[t] {
				missS = append(missS, t)
			}
		}
		sort.Strings(missS)
		for _, t := range missS {
			sb.WriteString("(declare-const " + t + " Str)\n")
		}
	}
	for i, a := range axioms {
		if inclAx[i] {
			sb.WriteString("(assert " + a + ")\n")
		}
	}
	for _, b := range body {
		sb.WriteString(b)
		sb.WriteByte('\n')
	}
	sb.WriteString("(check-sat)\n(get-model)\n")
	return sb.String()
}

type solverSpec struct {
	name string
	args []string
	cvc5 bool
}

var solvers = []solverSpec{
	{name: "z3-new", args: []string{"z3-new", "-in", "-smt2"}},
	{name: "z3", args: []string{"z3", "-in", "-smt2"}},
	{name: "cvc5", args: []string{"cvc5", "--lang=smt2", "--produce-models", "-"}, cvc5: true},
}

type solveResult struct {
	status string // unsat | sat | unknown | timeout | error
	out    string
	dur    time.Duration
	solver string
}

func runSolver(ctx context.Context, s solverSpec, script string, timeout time.Duration) solveResult {
	cctx, cancel := context.WithTimeout(ctx, timeout)
	defer cancel()
	args := append([]string(nil), s.args[1:]...)
	if !s.cvc5 {
		args = append(args, fmt.Sprintf("-T:%d", int(timeout.Seconds())+1))
	} else {
		args = append([]string{fmt.Sprintf("--tlimit=%d", timeout.Milliseconds())}, args...)
	}
	cmd := exec.CommandContext(cctx, s.args[0], args...)
	cmd.Stdin = strings.NewReader(script)
	var out bytes.Buffer
	cmd.Stdout = &out
	cmd.Stderr = &out
	t0 := time.Now()
	_ = cmd.Run()
	dur := time.Since(t0)
	text := out.String()
	first := strings.TrimSpace(strings.SplitN(text, "\n", 2)[0])
	st := "error"
	switch {
	case first == "unsat":
		st = "unsat"
	case first == "sat":
		st = "sat"
	case first == "unknown":
		st = "unknown"
	case cctx.Err() != nil || strings.Contains(first, "timeout") || strings.Contains(text, "interrupted by timeout"):
		st = "timeout"
	}
	if len(text) > 20000 {
		text = text[:20000] + "\n...[truncated]"
	}
	return solveResult{status: st, out: text, dur: dur, solver: s.name}
}

// race runs all solvers concurrently and returns the first definite answer.
func race(script, scriptCVC5 string, timeout time.Duration, only []string) solveResult {
	ctx, cancel := context.WithCancel(context.Background())
	defer cancel()
	ch := make(chan solveResult, len(solvers))
	n := 0
	for _, s := range solvers {
		if len(only) > 0 && !contains(only, s.name) {
			continue
		}
		n++
		s := s
		go func() {
			sc := script
			if s.cvc5 {
				sc = scriptCVC5
			}
			ch <- runSolver(ctx, s, sc, timeout)
		}()
	}
	var last solveResult
	last.status = "unknown"
	var outs []string
	for i := 0; i < n; i++ {
		r := <-ch
		if r.status == "unsat" || r.status == "sat" {
			return r
		}
		outs = append(outs, fmt.Sprintf("[%s: %s after %.1fs] %s", r.solver, r.status, r.dur.Seconds(), firstLines(r.out, 3)))
		if last.status == "unknown" || r.status == "timeout" {
			last = r
		}
	}
	last.out = strings.Join(outs, "\n")
	last.solver = "all"
	return last
}

func firstLines(s string, n int) string {
	ls := strings.Split(s, "\n")
	if len(ls) > n {
		ls = ls[:n]
	}
	return strings.Join(ls, " | ")
}

func contains(xs []string, x string) bool {
	for _, y := range xs {
		if x == y {
			return true
		}
	}
	return false
}

type SolveOpts struct {
	Timeout   time.Duration
	Thorough  bool
	DumpDir   string
	Workers   int
}

// dischargeAll decides every obligation of a verifier run.
func dischargeAll(v *V, opts SolveOpts) {
	type job struct{ o *Obl }
	var mu sync.Mutex
	_ = mu
	// stage 1: quick pass with one solver, many workers
	stage := func(obls []*Obl, workers int, f func(o *Obl)) {
		var wg sync.WaitGroup
		ch := make(chan *Obl)
		for i := 0; i < workers; i++ {
			wg.Add(1)
			go func() {
				defer wg.Done()
				for o := range ch {
					f(o)
				}
			}()
		}
		for _, o := range obls {
			ch <- o
		}
		close(ch)
		wg.Wait()
	}
	scripts := func(o *Obl, slice bool) (string, string) {
		decls := v.d.lines[:o.NDecls]
		return buildScript(decls, v.axioms, o, false, slice, v.d.mode), buildScript(decls, v.axioms, o, true, slice, v.d.mode)
	}
	quickT := 3 * time.Second
	if quickT > opts.Timeout {
		quickT = opts.Timeout
	}
	if opts.DumpDir != "" {
		for _, o := range v.obls {
			s, _ := scripts(o, true)
			os.WriteFile(fmt.Sprintf("%s/%s.%d.smt2", opts.DumpDir, sanitize(o.Name), o.Inst), []byte(s), 0o644)
		}
	}
	// group stage: the unsplit goal in one query; success discharges all its conjuncts
	{
		var gs []*Obl
		byWhole := map[*Obl]*OblGroup{}
		for _, g := range v.groups {
			gs = append(gs, g.Whole)
			byWhole[g.Whole] = g
		}
		stage(gs, opts.Workers, func(o *Obl) {
			s, _ := scripts(o, true)
			r := runSolver(context.Background(), solvers[0], s, 2*quickT)
			if r.status == "unsat" {
				g := byWhole[o]
				for _, m := range g.Members {
					m.Status, m.Solver, m.Output, m.Stage = "unsat", r.solver+"(whole goal)", "", "whole"
					m.TimeS = r.dur.Seconds() / float64(len(g.Members))
				}
			}
		})
	}
	// stage 0: small neighbourhoods of the goal first (most obligations are local facts)
	for _, depth := range []int{1, 3} {
		depth := depth
		var todo []*Obl
		for _, o := range v.obls {
			if o.Expect == "unsat" && o.Status != "unsat" && !(o.Goal == "true") && !o.NoPre {
				todo = append(todo, o)
			}
		}
		stage(todo, opts.Workers, func(o *Obl) {
			o.SliceDepth = depth
			s, _ := scripts(o, true)
			o.SliceDepth = 0
			if opts.DumpDir != "" {
				os.WriteFile(fmt.Sprintf("%s/%s.%d.d%d.smt2", opts.DumpDir, sanitize(o.Name), o.Inst, depth), []byte(s), 0o644)
			}
			r := runSolver(context.Background(), solvers[0], s, 2*time.Second)
			o.TimeS += r.dur.Seconds()
			if r.status == "unsat" {
				o.Status, o.Solver, o.Output, o.Stage = r.status, r.solver, r.out, fmt.Sprintf("d%d", depth)
			}
		})
	}
	stage(v.obls, opts.Workers, func(o *Obl) {
		if o.Status == "unsat" && o.Expect == "unsat" {
			return
		}
		if o.Goal == "true" && o.Expect == "unsat" {
			o.Status, o.Solver = "unsat", "trivial"
			return
		}
		s, _ := scripts(o, true)
		if opts.DumpDir != "" {
			os.WriteFile(fmt.Sprintf("%s/%s.%d.smt2", opts.DumpDir, sanitize(o.Name), o.Inst), []byte(s), 0o644)
		}
		r := runSolver(context.Background(), solvers[0], s, quickT)
		o.Status, o.Solver, o.Output, o.Stage = r.status, r.solver, r.out, "slice"
		o.TimeS += r.dur.Seconds()
		if r.status == "sat" {
			o.Model = r.out
		}
	})
	var rest []*Obl
	for _, o := range v.obls {
		if o.Expect == "sat" {
			if o.Status != "unsat" && o.Status != "sat" {
				rest = append(rest, o)
			}
		} else if o.Status != "unsat" {
			// a sat answer on the sliced script may be spurious: decide on the full path condition
			rest = append(rest, o)
		}
	}
	w2 := opts.Workers / 3
	if w2 < 1 {
		w2 = 1
	}
	{
		// the sliced script once more, with every solver and a longer limit: the 3 s of the slice stage
		// are tight when 16 queries run side by side. Only "unsat" is accepted (any subset of the
		// hypotheses is sound for that); everything else goes on to the full path condition.
		var again []*Obl
		for _, o := range rest {
			if o.Expect == "unsat" {
				again = append(again, o)
			}
		}
		stage(again, w2, func(o *Obl) {
			s, sc := scripts(o, true)
			to := 15 * time.Second
			if to > opts.Timeout {
				to = opts.Timeout
			}
			r := race(s, sc, to, nil)
			o.TimeS += r.dur.Seconds()
			if r.status == "unsat" {
				o.Status, o.Solver, o.Output, o.Stage = "unsat", r.solver, "", "slice-long"
			}
		})
		var rest2 []*Obl
		for _, o := range rest {
			if !(o.Expect == "unsat" && o.Status == "unsat") {
				rest2 = append(rest2, o)
			}
		}
		rest = rest2
	}
	stage(rest, w2, func(o *Obl) {
		// second stage: full path condition (the sliced one may have dropped the reason a path is infeasible)
		s, sc := scripts(o, false)
		to := opts.Timeout
		if o.Expect == "sat" && to > 8*time.Second && !opts.Thorough {
			// vacuity guards: only "unsat" is an alarm; no point in searching long for a model
			to = 8 * time.Second
		}
		r := race(s, sc, to, nil)
		o.Status, o.Solver, o.Output, o.Stage = r.status, r.solver, r.out, "full"
		o.TimeS += r.dur.Seconds()
		if r.status == "sat" {
			o.Model = r.out
		}
	})
	{
		// a vacuity guard that fired on a path that is itself infeasible (the path condition before
		// the guarded assumptions is already unsatisfiable) says nothing about the contract
		var fired []*Obl
		for _, o := range v.obls {
			if o.Expect == "sat" && o.Status == "unsat" && o.AltPC != nil {
				fired = append(fired, o)
			}
		}
		stage(fired, w2, func(o *Obl) {
			alt := &Obl{Name: o.Name, PC: o.AltPC, Goal: "false", Expect: "sat", NDecls: o.NDecls}
			s, sc := scripts(alt, false)
			r := race(s, sc, opts.Timeout, nil)
			if r.status == "unsat" {
				o.Status, o.Solver, o.Stage = "dead-path", r.solver, "alt"
			}
		})
	}
	if opts.Thorough {
		// cross-check: every discharged obligation must also be discharged by a second solver binary
		var unsat []*Obl
		for _, o := range v.obls {
			if o.Status == "unsat" && o.Expect == "unsat" && o.Solver != "trivial" {
				unsat = append(unsat, o)
			}
		}
		stage(unsat, w2, func(o *Obl) {
			s, sc := scripts(o, false)
			var others []string
			for _, sv := range solvers {
				if sv.name != o.Solver {
					others = append(others, sv.name)
				}
			}
			r := race(s, sc, opts.Timeout, others)
			o.Checked = append(o.Checked, o.Solver)
			if r.status == "unsat" {
				o.Checked = append(o.Checked, r.solver)
			} else if r.status == "sat" {
				o.Status, o.Solver, o.Output, o.Model = "sat", r.solver, "solver disagreement: "+r.out, r.out
			}
			o.TimeS += r.dur.Seconds()
		})
	}
}
