package main

import (
	"flag"
	"fmt"
	"os"
	"runtime/debug"
	"sort"
	"strings"
	"time"
)

// FuncResult is the outcome of verifying one function under contract.
type FuncResult struct {
	Key      string
	Pkg      string
	Mode     string
	Spec     *FuncSpec
	V        *V
	ToolErr  string // non-empty: the function could not be translated (contract does not bind / outside subset)
	BindErr  bool
	Obls     []*Obl
	WallS    float64
}

func verifyFunc(prog *Prog, fs *FuncSpec, mode Mode, opts SolveOpts) (res *FuncResult) {
	t0 := time.Now()
	res = &FuncResult{Key: fs.Key, Pkg: fs.PkgPath, Mode: mode.String(), Spec: fs}
	fi := prog.funcs[fs.PkgPath+"."+fs.Key]
	if fi == nil {
		res.ToolErr = fmt.Sprintf("contract-does-not-bind: function %s.%s not found", fs.PkgPath, fs.Key)
		res.BindErr = true
		return
	}
	v := newV(prog, fi, fs, mode)
	res.V = v
	func() {
		defer func() {
			if r := recover(); r != nil {
				switch e := r.(type) {
				case unsupportedErr:
					res.ToolErr = e.Error()
				case bindError:
					res.ToolErr = "contract-does-not-bind: " + e.Error()
					res.BindErr = true
				default:
					res.ToolErr = fmt.Sprintf("internal error: %v\n%s", r, debug.Stack())
				}
			}
		}()
		for _, ax := range prog.contracts.Axioms {
			_ = ax
		}
		v.run()
	}()
	if res.ToolErr == "" {
		dischargeAll(v, opts)
	}
	res.Obls = v.obls
	res.WallS = time.Since(t0).Seconds()
	return
}

func modesOf(fs *FuncSpec) []Mode {
	switch fs.Mode {
	case "bv":
		return []Mode{ModeBV}
	case "any":
		return []Mode{ModeBV, ModeInt}
	default:
		return []Mode{ModeInt}
	}
}

func cmdFunc(args []string) int {
	fl := flag.NewFlagSet("func", flag.ExitOnError)
	repo := fl.String("repo", "/repo", "repository root")
	pkg := fl.String("pkg", "", "package pattern, e.g. ./numeric")
	key := fl.String("key", "", "function key (empty: all contracted functions of the package)")
	dump := fl.String("dump", "", "directory to dump SMT scripts")
	timeout := fl.Duration("timeout", 10*time.Second, "per-obligation timeout")
	verbose := fl.Bool("v", false, "print every obligation")
	fl.Parse(args)
	prog, err := loadProg(*repo, []string{*pkg})
	if err != nil {
		fmt.Println("load error:", err)
		return 2
	}
	for _, e := range prog.loadErrs {
		fmt.Println("load:", e)
	}
	for _, e := range prog.contracts.Errors {
		fmt.Println("contract error:", e)
	}
	if *dump != "" {
		os.MkdirAll(*dump, 0o755)
	}
	bad := 0
	for _, k := range prog.contracts.Order {
		fs := prog.contracts.Funcs[k]
		if fs.Kind != "func" {
			continue
		}
		if *key != "" && fs.Key != *key {
			continue
		}
		for _, m := range modesOf(fs) {
			r := verifyFunc(prog, fs, m, SolveOpts{Timeout: *timeout, Workers: 16, DumpDir: *dump})
			bad += printFuncResult(r, *verbose)
		}
	}
	if bad > 0 {
		return 1
	}
	return 0
}

func printFuncResult(r *FuncResult, verbose bool) int {
	bad := 0
	if r.ToolErr != "" {
		fmt.Printf("FUNC %s.%s [%s]: TOOL ERROR: %s\n", r.Pkg, r.Key, r.Mode, r.ToolErr)
		return 1
	}
	groups := map[string][]*Obl{}
	var names []string
	for _, o := range r.Obls {
		if _, ok := groups[o.Name]; !ok {
			names = append(names, o.Name)
		}
		groups[o.Name] = append(groups[o.Name], o)
	}
	sort.Strings(names)
	ok := 0
	for _, n := range names {
		good := true
		for _, o := range groups[n] {
			if !oblOK(o) {
				good = false
			}
		}
		if good {
			ok++
		} else {
			bad++
		}
		if verbose || !good {
			for _, o := range groups[n] {
				flag := "ok  "
				if !oblOK(o) {
					flag = "FAIL"
				}
				fmt.Printf("  %s %-60s inst %d  %-7s %-7s %.2fs  %s\n", flag, o.Name, o.Inst, o.Status, o.Solver, o.TimeS, o.Desc)
				if !oblOK(o) && o.Pos.IsValid() {
					fmt.Printf("       at %s\n", o.Pos)
				}
			}
		}
	}
	fmt.Printf("FUNC %s.%s [%s]: %d/%d obligations discharged (%d queries, %d paths) %.1fs\n", r.Pkg, r.Key, r.Mode, ok, len(names), len(r.Obls), r.V.paths, r.WallS)
	return bad
}

func oblOK(o *Obl) bool {
	if o.Expect == "sat" {
		return o.Status != "unsat" // vacuity guard: must not be unsatisfiable
	}
	return o.Status == "unsat"
}

func main() {
	if len(os.Args) < 2 {
		fmt.Println("usage: gocv <func|check|list|selftest> ...")
		os.Exit(2)
	}
	var rc int
	switch os.Args[1] {
	case "func":
		rc = cmdFunc(os.Args[2:])
	case "check":
		rc = cmdCheck(os.Args[2:])
	default:
		fmt.Println("unknown command", os.Args[1])
		rc = 2
	}
	os.Exit(rc)
}

var _ = strings.Join
