package main

import (
	"flag"
	"fmt"
	"os"
	"runtime/debug"
	"sort"
	"strings"
	"time"
)

// FuncResult is the outcome of verifying one function under contract.
type FuncResult struct {
	Key      string
	Pkg      string
	Mode     string
	Spec     *FuncSpec
	V        *V
	ToolErr  string // non-empty: the function could not be translated (contract does not bind / outside subset)
	BindErr  bool
	Obls     []*Obl
	WallS    float64
}

func verifyFunc(prog *Prog, fs *FuncSpec, mode Mode, opts SolveOpts) (res *FuncResult) {
	t0 := time.Now()
	res = &FuncResult{Key: fs.Key, Pkg: fs.PkgPath, Mode: mode.String(), Spec: fs}
	fi := prog.funcs[fs.PkgPath+"."+fs.Key]
	if fi == nil {
		res.ToolErr = fmt.Sprintf("contract-does-not-bind: function %s.%s not found", fs.PkgPath, fs.Key)
		res.BindErr = true
		return
	}
	if fs.Implements != "" {
		ex, err := expandImplements(prog, fs, fi)
		if err != nil {
			res.ToolErr = "contract-does-not-bind: " + err.Error()
			res.BindErr = true
			return
		}
		fs = ex
		res.Spec = ex
	}
	v := newV(prog, fi, fs, mode)
	res.V = v
	func() {
		defer func() {
			if r := recover(); r != nil {
				switch e := r.(type) {
				case unsupportedErr:
					res.ToolErr = e.Error()
				case bindError:
					res.ToolErr = "contract-does-not-bind: " + e.Error()
					res.BindErr = true
				default:
					res.ToolErr = fmt.Sprintf("internal error: %v\n%s", r, debug.Stack())
				}
			}
		}()
		for _, ax := range prog.contracts.Axioms {
			_ = ax
		}
		v.run()
	}()
	tRun := time.Since(t0).Seconds()
	if res.ToolErr == "" {
		dischargeAll(v, opts)
	}
	if os.Getenv("GOCV_STATS") != "" {
		fmt.Printf("  stats: symbolic execution %.1fs (pruned %d), discharge %.1fs\n", tRun, v.pruned, time.Since(t0).Seconds()-tRun)
	}
	res.Obls = v.obls
	res.WallS = time.Since(t0).Seconds()
	return
}

func modesOf(fs *FuncSpec) []Mode {
	switch fs.Mode {
	case "bv":
		return []Mode{ModeBV}
	case "any":
		return []Mode{ModeBV, ModeInt}
	default:
		return []Mode{ModeInt}
	}
}

func cmdFunc(args []string) int {
	fl := flag.NewFlagSet("func", flag.ExitOnError)
	repo := fl.String("repo", "/repo", "repository root")
	pkg := fl.String("pkg", "", "package pattern, e.g. ./numeric")
	key := fl.String("key", "", "function key (empty: all contracted functions of the package)")
	dump := fl.String("dump", "", "directory to dump SMT scripts")
	timeout := fl.Duration("timeout", 10*time.Second, "per-obligation timeout")
	verbose := fl.Bool("v", false, "print every obligation")
	fl.Parse(args)
	prog, err := loadProg(*repo, []string{*pkg})
	if err != nil {
		fmt.Println("load error:", err)
		return 2
	}
	for _, e := range prog.loadErrs {
		fmt.Println("load:", e)
	}
	for _, e := range prog.contracts.Errors {
		fmt.Println("contract error:", e)
	}
	if *dump != "" {
		os.MkdirAll(*dump, 0o755)
	}
	bad := 0
	for _, k := range prog.contracts.Order {
		fs := prog.contracts.Funcs[k]
		if fs.Kind != "func" || fs.Trusted != "" {
			continue
		}
		if *key != "" && fs.Key != *key {
			continue
		}
		if suf := strings.TrimSuffix(strings.TrimPrefix(*pkg, "."), "/..."); suf == "" {
			if fs.PkgPath != prog.module {
				continue
			}
		} else if !strings.HasSuffix(fs.PkgPath, suf) {
			continue
		}
		for _, m := range modesOf(fs) {
			r := verifyFunc(prog, fs, m, SolveOpts{Timeout: *timeout, Workers: 16, DumpDir: *dump})
			bad += printFuncResult(r, *verbose)
		}
	}
	if bad > 0 {
		return 1
	}
	return 0
}

func printFuncResult(r *FuncResult, verbose bool) int {
	bad := 0
	if r.ToolErr != "" {
		fmt.Printf("FUNC %s.%s [%s]: TOOL ERROR: %s\n", r.Pkg, r.Key, r.Mode, r.ToolErr)
		return 1
	}
	groups := map[string][]*Obl{}
	var names []string
	for _, o := range r.Obls {
		if _, ok := groups[o.Name]; !ok {
			names = append(names, o.Name)
		}
		groups[o.Name] = append(groups[o.Name], o)
	}
	sort.Strings(names)
	ok := 0
	for _, n := range names {
		good := true
		for _, o := range groups[n] {
			if !oblOK(o) {
				good = false
			}
		}
		if good {
			ok++
		} else {
			bad++
		}
		if verbose || !good {
			for _, o := range groups[n] {
				flag := "ok  "
				if !oblOK(o) {
					flag = "FAIL"
				}
				fmt.Printf("  %s %-60s inst %d  %-7s %-7s %.2fs  %s\n", flag, o.Name, o.Inst, o.Status, o.Solver, o.TimeS, o.Desc)
				if !oblOK(o) && o.Pos.IsValid() {
					fmt.Printf("       at %s\n", o.Pos)
				}
			}
		}
	}
	if os.Getenv("GOCV_STATS") != "" {
		by := map[string]int{}
		tm := map[string]float64{}
		for _, o := range r.Obls {
			by[o.Stage+"/"+o.Solver]++
			tm[o.Stage+"/"+o.Solver] += o.TimeS
		}
		for k, n := range by {
			fmt.Printf("  stats: %-24s %4d obligations %.1fs solver time\n", k, n, tm[k])
		}
	}
	fmt.Printf("FUNC %s.%s [%s]: %d/%d obligations discharged (%d queries, %d paths) %.1fs\n", r.Pkg, r.Key, r.Mode, ok, len(names), len(r.Obls), r.V.paths, r.WallS)
	return bad
}

func oblOK(o *Obl) bool {
	if o.Expect == "sat" {
		return o.Status != "unsat" // vacuity guard: must not be unsatisfiable
	}
	return o.Status == "unsat"
}

func main() {
	if len(os.Args) < 2 {
		fmt.Println("usage: gocv <func|check|list|selftest> ...")
		os.Exit(2)
	}
	var rc int
	switch os.Args[1] {
	case "func":
		rc = cmdFunc(os.Args[2:])
	case "check":
		rc = cmdCheck(os.Args[2:])
	default:
		fmt.Println("unknown command", os.Args[1])
		rc = 2
	}
	os.Exit(rc)
}

var _ = strings.Join

// expandImplements: the function must satisfy the contract of an interface method; the clauses of
// the interface contract are added to its own, with the interface contract's receiver/parameter
// names renamed to the implementation's names.
func expandImplements(prog *Prog, fs *FuncSpec, fi *FuncInfo) (*FuncSpec, error) {
	var ifs *FuncSpec
	for _, k := range prog.contracts.Order {
		c := prog.contracts.Funcs[k]
		if (c.Kind == "iface" || c.Kind == "assume") && (c.Key == fs.Implements || shortPkg(c.PkgPath)+"."+c.Key == fs.Implements || c.PkgPath+"."+c.Key == fs.Implements) {
			ifs = c
			break
		}
	}
	if ifs == nil {
		return nil, fmt.Errorf("interface contract %s not found", fs.Implements)
	}
	if len(ifs.Names) == 0 {
		return nil, fmt.Errorf("interface contract %s must name its receiver and parameters: iface T.M(recv, a, b)", ifs.Key)
	}
	var impl []string
	if fi.decl != nil && fi.decl.Recv != nil && len(fi.decl.Recv.List) > 0 && len(fi.decl.Recv.List[0].Names) > 0 {
		impl = append(impl, fi.decl.Recv.List[0].Names[0].Name)
	} else {
		return nil, fmt.Errorf("%s has no named receiver", fs.Key)
	}
	for _, f := range fi.decl.Type.Params.List {
		for _, n := range f.Names {
			impl = append(impl, n.Name)
		}
	}
	if len(impl) != len(ifs.Names) {
		return nil, fmt.Errorf("%s: %d names in interface contract, %d in implementation", fs.Key, len(ifs.Names), len(impl))
	}
	alias := map[string]string{}
	for i, n := range ifs.Names {
		if n != impl[i] {
			alias[n] = impl[i]
		}
	}
	out := *fs
	out.Requires = nil
	out.Ensures = nil
	for _, c := range ifs.Requires {
		out.Requires = append(out.Requires, renameClause(c, alias))
	}
	out.Requires = append(out.Requires, fs.Requires...)
	for _, c := range ifs.Ensures {
		out.Ensures = append(out.Ensures, renameClause(c, alias))
	}
	out.Ensures = append(out.Ensures, fs.Ensures...)
	for _, m := range ifs.Modifies {
		suffix := ""
		mm := m
		if strings.HasSuffix(mm, "[*]") {
			suffix = "[*]"
			mm = strings.TrimSuffix(mm, "[*]")
		}
		if e, err := parseSpecExpr(mm); err == nil {
			_ = e
			out.Modifies = append(out.Modifies, renameClause(Clause{Src: mm}, alias).Src+suffix)
		} else {
			out.Modifies = append(out.Modifies, m)
		}
	}
	out.Ghosts = append(append([]Param(nil), ifs.Ghosts...), fs.Ghosts...)
	if out.Mode == "" {
		out.Mode = ifs.Mode
	}
	return &out, nil
}
