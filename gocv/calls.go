package main

// Calls: builtins, conversions, spec builtins, contract application, inlining, known externals.

import (
	"fmt"
	"go/ast"
	"go/constant"
	"go/token"
	"go/types"
	"math"
	"math/big"
	"sort"
	"strings"
)

func (v *V) evalCall(e *Env, call *ast.CallExpr) []Val {
	// ---- conversion? ----
	if e.info != nil {
		if tv, ok := e.info.Types[call.Fun]; ok && tv.IsType() {
			if r, ok := v.runesOfBytes(e, call, tv.Type); ok {
				return []Val{r}
			}
			a := e.eval(call.Args[0])
			return []Val{v.convert(e, a, tv.Type, call.Pos())}
		}
	} else if t, ok := v.specTypeOf(e, call.Fun); ok && len(call.Args) == 1 {
		a := e.eval(call.Args[0])
		return []Val{v.convert(e, a, t, call.Pos())}
	}
	// ---- builtin / spec builtin by name ----
	if id, ok := unparen(call.Fun).(*ast.Ident); ok {
		isBuiltin := false
		if e.info != nil {
			_, isBuiltin = e.info.ObjectOf(id).(*types.Builtin)
		} else {
			if _, bound := e.bound[id.Name]; !bound {
				if o, ok := e.lookupName(id.Name); ok {
					_, isBuiltin = o.(*types.Builtin)
				}
			}
		}
		if isBuiltin {
			if !e.spec && (id.Name == "delete" || id.Name == "close" || id.Name == "append") {
				// contract hooks (`at call delete#k: assert ...`) also apply to these effectful builtins
				v.atStmts(e, call, false, map[string]Val{}, nil)
				r := v.evalBuiltin(e, id.Name, call)
				v.atStmts(e, call, true, map[string]Val{}, nil)
				return r
			}
			return v.evalBuiltin(e, id.Name, call)
		}
		if e.spec {
			if r, ok := v.evalSpecBuiltin(e, id.Name, call); ok {
				return []Val{r}
			}
			if sf, ok := v.prog.contracts.Specs[id.Name]; ok {
				return []Val{v.applySpecFun(e, sf, call)}
			}
		}
	}
	// ---- resolve callee ----
	var fnObj *types.Func
	var recv *Val
	var recvExpr ast.Expr
	switch f := unparen(call.Fun).(type) {
	case *ast.Ident:
		var obj types.Object
		if e.info != nil {
			obj = e.info.ObjectOf(f)
		} else if _, bound := e.bound[f.Name]; !bound {
			obj, _ = e.lookupName(f.Name)
		}
		if fo, ok := obj.(*types.Func); ok {
			fnObj = fo
		}
	case *ast.SelectorExpr:
		if id, ok := f.X.(*ast.Ident); ok {
			var obj types.Object
			if e.info != nil {
				obj = e.info.ObjectOf(id)
			} else if _, bound := e.bound[id.Name]; !bound {
				if _, isGhost := e.st.ghost[id.Name]; !isGhost {
					obj, _ = e.lookupName(id.Name)
				}
			}
			if pn, ok := obj.(*types.PkgName); ok {
				o := pn.Imported().Scope().Lookup(f.Sel.Name)
				if fo, ok := o.(*types.Func); ok {
					fnObj = fo
				} else if o == nil {
					panic(bindErr("%s.%s does not resolve", id.Name, f.Sel.Name))
				}
				break
			}
		}
		if e.info != nil {
			if sel, ok := e.info.Selections[f]; ok && sel.Kind() == types.MethodVal {
				fnObj = sel.Obj().(*types.Func)
				rv := e.eval(f.X)
				// walk embedded path to the receiver
				idx := sel.Index()
				if len(idx) > 1 {
					rv = v.walkFields(e, rv, idx[:len(idx)-1], f.Pos())
				}
				recv = &rv
				recvExpr = f.X
			}
		} else {
			// spec mode: method on a value
			base := e.eval(f.X)
			obj, index, _ := types.LookupFieldOrMethod(base.T, true, e.pkgOrNil(), f.Sel.Name)
			if fo, ok := obj.(*types.Func); ok {
				fnObj = fo
				if len(index) > 1 {
					base = v.walkFields(e, base, index[:len(index)-1], f.Pos())
				}
				recv = &base
			}
		}
	case *ast.FuncLit:
		// immediately-invoked function literal
		return v.inlineLit(e, f, call)
	}
	if fnObj == nil {
		// dynamic call through a function value
		fv := e.eval(call.Fun)
		return v.callFuncValue(e, fv, call)
	}
	_ = recvExpr
	return v.callStatic(e, fnObj, recv, call)
}

func unparen(x ast.Expr) ast.Expr {
	for {
		p, ok := x.(*ast.ParenExpr)
		if !ok {
			return x
		}
		x = p.X
	}
}

func (v *V) evalArgs(e *Env, sig *types.Signature, call *ast.CallExpr) []Val {
	var args []Val
	np := sig.Params().Len()
	if len(call.Args) == 1 && np > 1 {
		// f(g()) with multi-value g
		if c, ok := call.Args[0].(*ast.CallExpr); ok {
			rs := v.evalCall(e, c)
			for i, r := range rs {
				args = append(args, v.coerce(e, r, sig.Params().At(i).Type()))
			}
			return args
		}
	}
	for i, a := range call.Args {
		var pt types.Type
		if sig.Variadic() && i >= np-1 {
			if call.Ellipsis.IsValid() {
				pt = sig.Params().At(np - 1).Type()
			} else {
				pt = sig.Params().At(np - 1).Type().(*types.Slice).Elem()
			}
		} else if i < np {
			pt = sig.Params().At(i).Type()
		}
		args = append(args, v.coerce(e, e.eval(a), pt))
	}
	if sig.Variadic() && !call.Ellipsis.IsValid() {
		// pack variadic arguments into a fresh slice
		fixed := np - 1
		st := sig.Params().At(np - 1).Type()
		var packed Val
		if len(args) == fixed {
			packed = e.zero(st)
		} else {
			n := int64(len(args) - fixed)
			packed = v.makeSlice(e, st, Val{T: tInt, S: v.d.idxLit(n)}, Val{}, call.Pos(), false)
			for i, a := range args[fixed:] {
				v.sliceStore(e, packed, v.d.idxLit(int64(i)), a)
			}
		}
		args = append(args[:fixed:fixed], packed)
	}
	return args
}

func funcKeyOf(fn *types.Func) (pkgPath, key string) {
	sig := fn.Type().(*types.Signature)
	key = fn.Name()
	if r := sig.Recv(); r != nil {
		t := r.Type()
		if p, ok := t.(*types.Pointer); ok {
			t = p.Elem()
		}
		if n, ok := t.(*types.Named); ok {
			key = n.Obj().Name() + "." + fn.Name()
			if n.Obj().Pkg() != nil {
				pkgPath = n.Obj().Pkg().Path()
			}
		} else if a, ok := t.(*types.Alias); ok {
			key = a.Obj().Name() + "." + fn.Name()
		}
	}
	if fn.Pkg() != nil {
		pkgPath = fn.Pkg().Path()
	}
	return
}

// findContract looks up the contract of a function or interface method.
func (p *Prog) findContract(fn *types.Func, callerPkg string) *FuncSpec {
	pkgPath, key := funcKeyOf(fn)
	if fs, ok := p.contracts.Funcs[pkgPath+"."+key]; ok {
		return fs
	}
	// external: an assumed contract stated in the caller's package takes precedence (the same
	// external function, e.g. heap.Push, is specified per use), then ext.<pkgname>.<key>
	if fn.Pkg() != nil {
		if fs, ok := p.contracts.Funcs["ext@"+callerPkg+"."+fn.Pkg().Name()+"."+key]; ok {
			return fs
		}
		// then the assumed contract of the nearest imported package that states one (breadth-first over
		// the caller's imports): package searcher uses the id order assumed in package search
		if cp := p.pkgs[callerPkg]; cp != nil && cp.types != nil {
			seen := map[string]bool{callerPkg: true}
			queue := cp.types.Imports()
			for len(queue) > 0 {
				ip := queue[0]
				queue = queue[1:]
				if seen[ip.Path()] {
					continue
				}
				seen[ip.Path()] = true
				if fs, ok := p.contracts.Funcs["ext@"+ip.Path()+"."+fn.Pkg().Name()+"."+key]; ok {
					return fs
				}
				if strings.HasPrefix(ip.Path(), p.module) {
					queue = append(queue, ip.Imports()...)
				}
			}
		}
		if k := "ext." + fn.Pkg().Name() + "." + key; !p.contracts.ExtAmbiguous[k] {
			if fs, ok := p.contracts.Funcs[k]; ok {
				return fs
			}
		}
	}
	return nil
}

func (v *V) callStatic(e *Env, fn *types.Func, recv *Val, call *ast.CallExpr) []Val {
	sig := fn.Type().(*types.Signature)
	full := fn.FullName()
	// known external models first
	if r, ok := v.lockCall(e, fn, call); ok {
		return r
	}
	if r, ok := v.knownExternal(e, fn, recv, call); ok {
		return r
	}
	fs := v.prog.findContract(fn, v.pkg.path)
	otherMode := fs != nil && fs.Mode != "" && fs.Mode != "any" && fs.Mode != v.d.mode.String()
	if fs != nil && (!fs.Inline || otherMode) {
		// (an `inline` callee whose contract is in the other integer mode is not inlined: its body
		// would be translated in the wrong arithmetic; the call is opaque there)
		args := v.evalArgs(e, sig, call)
		rs := v.applyContract(e, fs, fn, recv, args, call)
		if !e.spec {
			v.havocClosureWrites(e, call)
		}
		return rs
	}
	// in-repo function without contract: inline
	if fi := v.prog.funcInfoFor(fn); fi != nil && fi.body != nil {
		args := v.evalArgs(e, sig, call)
		return v.inlineCall(e, fi, recv, args, call)
	}
	if v.dry > 0 {
		// modification analysis of a loop body: an unmodelled call (typically on a branch that the
		// real run prunes as infeasible) counts as "may modify everything"
		v.dryUnknown = true
		var out []Val
		for i := 0; i < sig.Results().Len(); i++ {
			out = append(out, v.freshVal(e.st, "ret_unknown", sig.Results().At(i).Type()))
		}
		return out
	}
	panic(unsupported("call to %s: no contract and no body to inline", full))
}

// ---------- builtins ----------

func (v *V) evalBuiltin(e *Env, name string, call *ast.CallExpr) []Val {
	switch name {
	case "len", "cap":
		a := e.eval(call.Args[0])
		return []Val{v.builtinLen(e, a, name == "cap")}
	case "append":
		s := e.eval(call.Args[0])
		st, ok := s.T.Underlying().(*types.Slice)
		if !ok {
			// append(nil-typed...) : use the call's type
			if t := e.typeOfExpr(call); t != nil {
				s = e.zero(t)
				st = t.Underlying().(*types.Slice)
			} else {
				panic(unsupported("append to %s", s.T))
			}
		}
		if call.Ellipsis.IsValid() {
			t := e.eval(call.Args[1])
			if isString(t.T) {
				t = v.strToBytes(e, t, s.T)
			}
			if bt, ok := t.T.(*types.Basic); ok && bt.Kind() == types.UntypedNil {
				return []Val{s}
			}
			return []Val{v.appendSpread(e, s, t)}
		}
		var elems []Val
		for _, a := range call.Args[1:] {
			elems = append(elems, v.coerce(e, e.eval(a), st.Elem()))
		}
		return []Val{v.appendElems(e, s, elems)}
	case "copy":
		dst := e.eval(call.Args[0])
		src := e.eval(call.Args[1])
		return []Val{v.copySlices(e, dst, src)}
	case "make":
		t := e.typeOfExpr(call.Args[0])
		if t == nil {
			tt, ok := v.specTypeOf(e, call.Args[0])
			if !ok {
				panic(unsupported("make: type"))
			}
			t = tt
		}
		switch t.Underlying().(type) {
		case *types.Slice:
			n := e.eval(call.Args[1])
			var c Val
			if len(call.Args) > 2 {
				c = e.eval(call.Args[2])
			}
			return []Val{v.makeSlice(e, t, n, c, call.Pos(), len(call.Args) > 2)}
		case *types.Map:
			return []Val{v.makeMap(e, t)}
		case *types.Chan:
			return []Val{{T: t, S: v.alloc(e, "chan")}}
		}
		panic(unsupported("make(%s)", t))
	case "new":
		t := e.typeOfExpr(call.Args[0])
		r := v.alloc(e, "new")
		p := Val{T: types.NewPointer(t), S: r}
		v.storeThrough(e, p, e.zero(t), call.Pos())
		return []Val{p}
	case "delete":
		m := e.eval(call.Args[0])
		k := v.coerce(e, e.eval(call.Args[1]), m.T.Underlying().(*types.Map).Key())
		v.mapDelete(e, m, k)
		return nil
	case "close":
		e.eval(call.Args[0])
		v.abstraction("close of a channel at " + v.prog.pos(call.Pos()) + " treated as a no-op event")
		return nil
	case "panic":
		v.oblige(e, "panic", "false", call.Pos(), "explicit panic reachable")
		e.st.dead = true
		e.st.assume("false")
		return nil
	case "min", "max":
		r := e.eval(call.Args[0])
		for _, a := range call.Args[1:] {
			b := e.eval(a)
			if isUntyped(r.T) && !isUntyped(b.T) {
				r = e.adapt(r, b.T)
			}
			if isUntyped(b.T) {
				b = e.adapt(b, r.T)
			}
			op := token.LSS
			if name == "max" {
				op = token.GTR
			}
			c := v.compare(e, op, r, b)
			r = Val{T: r.T, S: ite(c, r.S, b.S)}
		}
		return []Val{r}
	case "print", "println":
		return nil
	}
	panic(unsupported("builtin %s", name))
}

// ---------- spec builtins ----------

func (v *V) specTypeOf(e *Env, x ast.Expr) (types.Type, bool) {
	defer func() { recover() }()
	switch t := x.(type) {
	case *ast.Ident:
		if _, bound := e.bound[t.Name]; bound {
			return nil, false
		}
		if _, ok := e.st.ghost[t.Name]; ok {
			return nil, false
		}
		o, ok := e.lookupName(t.Name)
		if !ok {
			return nil, false
		}
		if tn, ok := o.(*types.TypeName); ok {
			return tn.Type(), true
		}
		return nil, false
	case *ast.ParenExpr:
		return v.specTypeOf(e, t.X)
	case *ast.ArrayType, *ast.MapType, *ast.StarExpr, *ast.FuncType, *ast.InterfaceType:
		if _, isStar := x.(*ast.StarExpr); isStar && e.info != nil {
			return nil, false
		}
		tt := v.prog.resolveTypeIn(x, e.pkgOrNil(), e)
		if tt == nil {
			return nil, false
		}
		return tt, true
	case *ast.SelectorExpr:
		if id, ok := t.X.(*ast.Ident); ok {
			if _, bound := e.bound[id.Name]; bound {
				return nil, false
			}
			o, ok := e.lookupName(id.Name)
			if !ok {
				return nil, false
			}
			if pn, ok := o.(*types.PkgName); ok {
				if tn, ok := pn.Imported().Scope().Lookup(t.Sel.Name).(*types.TypeName); ok {
					return tn.Type(), true
				}
			}
		}
	}
	return nil, false
}

func (v *V) evalSpecBuiltin(e *Env, name string, call *ast.CallExpr) (Val, bool) {
	d := v.d
	args := call.Args
	if r, ok := v.lockSpec(e, name, call); ok {
		return r, true
	}
	switch name {
	case "old":
		if e.old == nil {
			panic(bindErr("old() used where no pre-state exists"))
		}
		ne := *e
		ne.st = e.old
		ne.old = nil
		// old state must not be mutated by evaluation: use a clone's pc sink
		sink := e.old.clone()
		ne.st = sink
		r := ne.eval(args[0])
		// definitional facts produced while evaluating in the old state are valid facts; keep them
		for _, c := range sink.pc[len(e.old.pc):] {
			e.st.define(c)
		}
		return r, true
	case "implies":
		a := e.nonProving().eval(args[0])
		b := e.eval(args[1])
		return boolVal(implies(a.S, b.S)), true
	case "iff":
		a, b := e.nonProving().eval(args[0]), e.nonProving().eval(args[1])
		return boolVal(eq(a.S, b.S)), true
	case "ite":
		c, a, b := e.nonProving().eval(args[0]), e.eval(args[1]), e.eval(args[2])
		if isUntyped(a.T) && !isUntyped(b.T) {
			a = e.adapt(a, b.T)
		} else if isUntyped(b.T) && !isUntyped(a.T) {
			b = e.adapt(b, a.T)
		} else if isUntyped(a.T) {
			a, b = e.adapt(a, defaultType(a.T)), e.adapt(b, defaultType(a.T))
		}
		a, b = v.unifyNil(e, a, b)
		return Val{T: a.T, S: ite(c.S, a.S, b.S)}, true
	case "forall", "exists":
		// forall(i, lo, hi, P): lo <= i < hi over int
		id, ok := args[0].(*ast.Ident)
		if !ok || !(len(args) == 4 || (name == "exists" && len(args) == 5)) {
			panic(bindErr("%s(i, lo, hi, P) expected", name))
		}
		lo, hi := e.adapt(e.eval(args[1]), tInt), e.adapt(e.eval(args[2]), tInt)
		if len(args) == 5 && e.proving {
			// exists(i, lo, hi, P, w): when the clause is being proved (positive position) the
			// witness w instantiates the quantifier: lo <= w < hi && P[w/i]. A witness that does not
			// resolve at this return point (e.g. a loop variable, after the loop) is ignored.
			var w Val
			okW := func() (ok bool) {
				defer func() {
					if r := recover(); r != nil {
						if _, isBind := r.(bindError); isBind {
							ok = false
							return
						}
						panic(r)
					}
				}()
				w = e.adapt(e.eval(args[4]), tInt)
				return true
			}()
			if okW {
				ne := e.sub()
				ne.bound[id.Name] = Val{T: tInt, S: w.S}
				body := ne.eval(args[3])
				return boolVal(and(v.ile(lo.S, w.S), v.ilt(w.S, hi.S), body.S)), true
			}
		}
		ne := e.sub()
		ne.inQuant++
		qn := fmt.Sprintf("%s_qi%d", sanitize(id.Name), v.nextQ())
		ne.bound[id.Name] = Val{T: tInt, S: qn}
		body := ne.eval(args[3])
		d.usesQuant = true
		rng := and(v.ile(lo.S, qn), v.ilt(qn, hi.S))
		if name == "forall" {
			return boolVal(fmt.Sprintf("(forall ((%s %s)) (=> %s %s))", qn, d.idxSort(), rng, body.S)), true
		}
		return boolVal(fmt.Sprintf("(exists ((%s %s)) (and %s %s))", qn, d.idxSort(), rng, body.S)), true
	case "all", "any":
		// all(x, T, P)
		id, ok := args[0].(*ast.Ident)
		if !ok || len(args) != 3 {
			panic(bindErr("%s(x, T, P) expected", name))
		}
		t, ok := v.specTypeOf(e, args[1])
		if !ok {
			panic(bindErr("%s: cannot resolve type %s", name, types.ExprString(args[1])))
		}
		ne := e.sub()
		ne.inQuant++
		qn := fmt.Sprintf("%s_qa%d", sanitize(id.Name), v.nextQ())
		qv := Val{T: t, S: qn}
		ne.bound[id.Name] = qv
		body := ne.eval(args[2])
		d.usesQuant = true
		inv := and(v.typeInvNoAlloc(qv)...)
		if isRef(t) {
			// quantification over references ranges over all reference values (including junk):
			// values read from the heap inside quantifiers carry no type invariant either
			inv = "true"
		}
		if name == "all" {
			return boolVal(fmt.Sprintf("(forall ((%s %s)) (=> %s %s))", qn, d.sortOf(t), inv, body.S)), true
		}
		return boolVal(fmt.Sprintf("(exists ((%s %s)) (and %s %s))", qn, d.sortOf(t), inv, body.S)), true
	case "fieldsEqual", "fieldsEqualExcept":
		// fieldsEqual(a, b): every field of the struct (taken from go/types, so a field added later
		// is covered) has the same value in a and b; fieldsEqualExcept(a, b, F1, F2, ...) skips some.
		a, b := e.eval(args[0]), e.eval(args[1])
		skip := map[string]bool{}
		for _, x := range args[2:] {
			id, ok := x.(*ast.Ident)
			if !ok {
				panic(bindErr("%s: field names expected", name))
			}
			skip[id.Name] = true
		}
		var st *types.Struct
		switch u := a.T.Underlying().(type) {
		case *types.Pointer:
			st, _ = u.Elem().Underlying().(*types.Struct)
		case *types.Struct:
			st = u
		}
		if st == nil || !types.Identical(a.T, b.T) {
			panic(bindErr("%s: arguments must be two values of the same struct (pointer) type", name))
		}
		var conj []string
		used := map[string]bool{}
		for i := 0; i < st.NumFields(); i++ {
			f := st.Field(i)
			if skip[f.Name()] {
				used[f.Name()] = true
				continue
			}
			fa, fb := v.readField(e, a, f, token.NoPos), v.readField(e, b, f, token.NoPos)
			if _, isSl := f.Type().Underlying().(*types.Slice); isSl {
				conj = append(conj, eq(fa.S, fb.S))
			} else if isFloat(f.Type()) {
				conj = append(conj, eq(fa.S, fb.S)) // same bits
			} else {
				conj = append(conj, eq(fa.S, fb.S))
			}
		}
		for n := range skip {
			if !used[n] {
				panic(bindErr("%s: no field %s", name, n))
			}
		}
		return boolVal(and(conj...)), true
	case "visited":
		k := e.eval(args[0])
		return boolVal(v.visitedKey(e, k)), true
	case "offset":
		a := e.eval(args[0])
		return Val{T: tInt, S: "(sl_off " + a.S + ")"}, true
	case "let":
		// let(x, value, body): value is evaluated in the current state and bound to x in body
		// (so that old(...) inside body can mention a value computed in the new state)
		id, ok := args[0].(*ast.Ident)
		if !ok || len(args) != 3 {
			panic(bindErr("let(x, value, body) expected"))
		}
		val := e.eval(args[1])
		if isUntyped(val.T) {
			val = e.adapt(val, defaultType(val.T))
		}
		ne := e.sub()
		ne.bound[id.Name] = val
		return ne.eval(args[2]), true
	case "nilp":
		a := e.eval(args[0])
		if _, ok := a.T.Underlying().(*types.Slice); ok {
			return boolVal(eq("(sl_base "+a.S+")", "0")), true
		}
		return boolVal(eq(a.S, "0")), true
	case "in":
		m := e.eval(args[0])
		mt, ok := m.T.Underlying().(*types.Map)
		if !ok {
			panic(bindErr("in(m, k): m must be a map"))
		}
		k := v.coerce(e, e.eval(args[1]), mt.Key())
		_, present := v.mapRead(e, m, k)
		return boolVal(present), true
	case "typeis":
		a := e.eval(args[0])
		t, ok := v.specTypeOf(e, args[1])
		if !ok {
			panic(bindErr("typeis: cannot resolve type"))
		}
		return boolVal(v.hasType(a, t)), true
	case "fresh":
		a := e.eval(args[0])
		if e.old == nil {
			panic(bindErr("fresh() needs a pre-state"))
		}
		ref := a.S
		if _, ok := a.T.Underlying().(*types.Slice); ok {
			ref = "(sl_base " + a.S + ")"
		}
		return boolVal(fmt.Sprintf("(> %s %s)", ref, e.old.alloc)), true
	case "bits":
		a := e.eval(args[0])
		if !isFloat(a.T) {
			panic(bindErr("bits() of non-float"))
		}
		if floatBits(a.T) == 32 {
			return Val{T: types.Typ[types.Uint32], S: a.S}, true
		}
		if d.mode == ModeInt {
			panic(unsupported("bits() in int mode"))
		}
		return Val{T: tUint64, S: a.S}, true
	case "isNaN":
		a := e.eval(args[0])
		d.usesFP = true
		return boolVal(fmt.Sprintf("(fp.isNaN %s)", toFP(a.S, floatBits(a.T)))), true
	case "base":
		a := e.eval(args[0])
		return Val{T: tInt, S: v.refToIdx("(sl_base " + a.S + ")")}, true
	case "upd":
		// upd(a, i, x): the array a with element i replaced by x (ghost fields of array type)
		a := e.eval(args[0])
		at, ok := a.T.Underlying().(*types.Array)
		if !ok {
			panic(bindErr("upd: first argument is not an array"))
		}
		i := e.eval(args[1])
		x := v.coerce(e, e.eval(args[2]), at.Elem())
		return Val{T: a.T, S: fmt.Sprintf("(store %s %s %s)", a.S, v.toIdx(e, i), x.S)}, true
	case "sameslice":
		a, b := e.eval(args[0]), e.eval(args[1])
		return boolVal(eq(a.S, b.S)), true
	case "ref":
		// ref(x): the identity of a reference as an int (for ghost maps keyed by object)
		a := e.eval(args[0])
		return Val{T: tInt, S: v.refToIdx(a.S)}, true
	case "seqeq":
		// seqeq(a, b): same length and same elements
		a, b := e.eval(args[0]), e.eval(args[1])
		qn := fmt.Sprintf("k_q%d", v.nextQ())
		d.usesQuant = true
		_, _, la, _ := v.sliceParts(a.S)
		_, _, lb, _ := v.sliceParts(b.S)
		return boolVal(and(eq(la, lb), fmt.Sprintf("(forall ((%s %s)) (=> %s %s))", qn, d.idxSort(), and(v.ile(d.idxLit(0), qn), v.ilt(qn, la)),
			eq(v.sliceElem(e, a, qn).S, v.sliceElem(e, b, qn).S)))), true
	case "bytesLess", "bytesLeq":
		// lexicographic order on byte slices (bytes.Compare < 0 / <= 0), quantified definition
		a, b := e.eval(args[0]), e.eval(args[1])
		lt := v.bytesLess(e, a, b)
		if name == "bytesLess" {
			return boolVal(lt), true
		}
		return boolVal(not(v.bytesLess(e, b, a))), true
	}
	return Val{}, false
}

func (v *V) refToIdx(ref string) string {
	if v.d.mode == ModeInt {
		return ref
	}
	return fmt.Sprintf("((_ int2bv 64) %s)", ref)
}

// bytesLess: exists k: common prefix of length k and (a ends, b continues | a[k] < b[k]).
func (v *V) bytesLess(e *Env, a, b Val) string {
	d := v.d
	d.usesQuant = true
	_, _, la, _ := v.sliceParts(a.S)
	_, _, lb, _ := v.sliceParts(b.S)
	k := fmt.Sprintf("k_q%d", v.nextQ())
	j := fmt.Sprintf("j_q%d", v.nextQ())
	ak, bk := v.sliceElem(e, a, k), v.sliceElem(e, b, k)
	aj, bj := v.sliceElem(e, a, j), v.sliceElem(e, b, j)
	lessAt := v.compare(e, token.LSS, ak, bk)
	return fmt.Sprintf("(exists ((%s %s)) (and %s %s %s (forall ((%s %s)) (=> (and %s %s) %s)) (or (and %s %s) (and %s %s %s))))",
		k, d.idxSort(), v.ile(d.idxLit(0), k), v.ile(k, la), v.ile(k, lb),
		j, d.idxSort(), v.ile(d.idxLit(0), j), v.ilt(j, k), eq(aj.S, bj.S),
		eq(k, la), v.ilt(k, lb),
		v.ilt(k, la), v.ilt(k, lb), lessAt)
}

func (v *V) typeInvNoAlloc(val Val) []string {
	return v.typeInv(nil, val)
}

func (v *V) nextQ() int { v.nq++; return v.nq }

func (v *V) applySpecFun(e *Env, sf *SpecFun, call *ast.CallExpr) Val {
	if len(call.Args) != len(sf.Params) {
		panic(bindErr("spec function %s expects %d arguments", sf.Name, len(sf.Params)))
	}
	if v.specDepth > 40 {
		panic(bindErr("spec function recursion too deep at %s", sf.Name))
	}
	var args []Val
	for i, a := range call.Args {
		pt := v.prog.resolveType(sf.Params[i].Type, sf.PkgPath)
		av := e.eval(a)
		if _, isI := pt.Underlying().(*types.Interface); isI && av.T != nil && !isUntyped(av.T) {
			if _, argI := av.T.Underlying().(*types.Interface); !argI {
				// spec functions are macros: keep the precise static type of the argument
				args = append(args, av)
				continue
			}
		}
		args = append(args, v.coerce(e, av, pt))
	}
	var rt types.Type = tBool
	if sf.Ret != nil {
		rt = v.prog.resolveType(sf.Ret, sf.PkgPath)
	}
	if sf.Body == nil {
		// uninterpreted
		var sorts, terms []string
		for _, a := range args {
			if sl, ok := a.T.Underlying().(*types.Slice); ok {
				// a function of the slice's contents (the element sequence), not of its header:
				// buffers are reused, so the same header denotes different sequences over time
				comp, sort := v.memComp(sl.Elem())
				base, off, ln, _ := v.sliceParts(a.S)
				row := e.st.heapRead(v.d, comp, sort, base)
				sorts = append(sorts, fmt.Sprintf("(Array %s %s)", v.d.idxSort(), v.d.sortOf(sl.Elem())), v.d.idxSort(), v.d.idxSort())
				terms = append(terms, row, off, ln)
				continue
			}
			sorts = append(sorts, v.d.sortOf(a.T))
			terms = append(terms, a.S)
		}
		name := "uf_" + sf.Name
		v.d.declareFun(name, sorts, v.d.sortOf(rt))
		if v.ufRange == nil {
			v.ufRange = map[string]bool{}
		}
		if !v.ufRange[name] && len(terms) > 0 && v.d.mode == ModeInt {
			// the result has its Go type's range also where the application occurs under a quantifier
			v.ufRange[name] = true
			var bs, as []string
			for k, s := range sorts {
				bs = append(bs, fmt.Sprintf("(ufa%d %s)", k, s))
				as = append(as, fmt.Sprintf("ufa%d", k))
			}
			app := fmt.Sprintf("(%s %s)", name, strings.Join(as, " "))
			if inv := v.typeInvNoAlloc(Val{T: rt, S: app}); len(inv) > 0 {
				v.d.usesQuant = true
				v.axioms = append(v.axioms, fmt.Sprintf("(forall (%s) (! %s :pattern (%s)))", strings.Join(bs, " "), and(inv...), app))
			}
		}
		if len(terms) == 0 {
			return Val{T: rt, S: name}
		}
		r := Val{T: rt, S: fmt.Sprintf("(%s %s)", name, strings.Join(terms, " "))}
		if e.inQuant == 0 {
			for _, a := range v.typeInvNoAlloc(r) {
				e.st.assume(a)
			}
		}
		return r
	}
	ne := e.sub()
	// the body is resolved in the package that declares the spec function
	if p := v.prog.pkgs[sf.PkgPath]; p != nil {
		ne.pkg = p.types
		ne.scope = nil
		ne.info = nil
	}
	ne.spec = true
	ne.info = nil
	ne.bound = map[string]Val{}
	for i, p := range sf.Params {
		ne.bound[p.Name] = args[i]
	}
	if sf.Opaque && !contains(v.spec.Reveal, sf.Name) {
		// opaque: an uninterpreted function of the arguments and of the heap components the
		// definition reads (found by evaluating the body once on the side)
		saved := v.d.trackReads
		v.d.trackReads = map[string]readDep{}
		func() {
			v.specDepth++
			defer func() { v.specDepth-- }()
			scratch := *ne
			scratch.st = ne.st.clone()
			scratch.inQuant++
			scratch.eval(sf.Body)
		}()
		deps := v.d.trackReads
		v.d.trackReads = saved
		var keys []string
		for k, dp := range deps {
			if dp.ref != "" {
				if _, whole := deps[dp.comp]; whole {
					continue // the whole component is a dependency anyway
				}
			}
			keys = append(keys, k)
		}
		// discovery order is structural (fixed by the body), unlike the text of the reference terms
		sort.Slice(keys, func(i, j int) bool { return deps[keys[i]].seq < deps[keys[j]].seq })
		var sorts, terms, shape []string
		for _, k := range keys {
			dp := deps[k]
			if saved != nil {
				if _, ok := saved[k]; !ok {
					dp2 := dp
					dp2.seq = len(saved)
					saved[k] = dp2
				}
			}
			hs := v.d.heapSorts[dp.comp]
			cur := ne.st.heapGet(v.d, dp.comp, hs)
			if dp.ref == "" {
				sorts = append(sorts, hs)
				terms = append(terms, cur)
				shape = append(shape, dp.comp)
			} else {
				// the slot of one object: sort is the range of the component array
				sorts = append(sorts, arrayRange(hs))
				terms = append(terms, "(select "+cur+" "+dp.ref+")")
				shape = append(shape, dp.comp+"@")
			}
		}
		for _, a := range args {
			sorts = append(sorts, v.d.sortOf(a.T))
			terms = append(terms, a.S)
		}
		name := "op_" + sf.Name + "_" + sanitize(strings.Join(shape, "_"))
		v.d.declareFun(name, sorts, v.d.sortOf(rt))
		v.opaqueUsed[sf.Name] = true
		return Val{T: rt, S: fmt.Sprintf("(%s %s)", name, strings.Join(terms, " "))}
	}
	v.specDepth++
	r := ne.eval(sf.Body)
	v.specDepth--
	r = v.coerce(ne, r, rt)
	return r
}

// ---------- dynamic calls ----------

func (v *V) callFuncValue(e *Env, fv Val, call *ast.CallExpr) []Val {
	sig, ok := fv.T.Underlying().(*types.Signature)
	if !ok {
		panic(unsupported("call of non-function %s", fv.T))
	}
	args := v.evalArgs(e, sig, call)
	if !e.spec {
		v.nilObl(e, fv.S, call.Pos(), "call of nil function value")
	}
	if !e.spec && contains(v.spec.Impure, types.ExprString(call.Fun)) {
		// declared impure: everything on the heap may change, results are arbitrary
		if len(e.st.guards) > 0 {
			panic(unsupported("impure call inside a short-circuit operand"))
		}
		if mods, ok := v.spec.ImpureMods[types.ExprString(call.Fun)]; ok {
			// effect restricted (by assumption, listed) to the given locations
			v.trust(fmt.Sprintf("calls through %s in %s modify at most: %s", types.ExprString(call.Fun), v.fi.name(), strings.Join(mods, ", ")))
			scope, spos := v.funcScope(v.fi)
			me := v.specEnv(e.st.clone(), nil, v.top, scope, spos)
			if sc := v.top.info.Scopes[v.enclosingBlock(call)]; sc != nil {
				me.scope, me.pos = sc, call.Pos()
			}
			set := map[string][]string{}
			for _, m := range mods {
				v.addModifies(me, m, set)
			}
			pre := e.st.clone()
			for _, comp := range sortedKeys(set) {
				refs := set[comp]
				cur := e.st.heapGet(v.d, comp, v.d.heapSorts[comp])
				nh := v.d.fresh("hi_"+comp, v.d.heapSorts[comp])
				if refs != nil {
					var except []string
					for _, r := range refs {
						except = append(except, not(eq("qo", r)))
					}
					v.d.usesQuant = true
					e.st.define(fmt.Sprintf("(forall ((qo Int)) (! (=> (and (> qo 0) (<= qo %s) %s) (= (select %s qo) (select %s qo))) :pattern ((select %s qo))))", pre.alloc, and(except...), nh, cur, nh))
				}
				e.st.heap[comp] = nh
			}
		} else {
			for _, comp := range sortedKeys(e.st.heap) {
				e.st.heap[comp] = v.d.fresh("hi_"+comp, v.d.heapSorts[comp])
			}
			for comp := range v.d.heapSorts {
				if _, ok := e.st.heap[comp]; !ok {
					e.st.heap[comp] = v.d.fresh("hi_"+comp, v.d.heapSorts[comp])
				}
			}
			v.nEpochs++
			e.st.epoch = v.nEpochs
		}
		e.st.names = nil
		na := v.d.fresh("alloc", "Int")
		e.st.define(fmt.Sprintf("(>= %s %s)", na, e.st.alloc))
		e.st.alloc = na
		v.impureUsed[types.ExprString(call.Fun)] = true
		var out []Val
		for i := 0; i < sig.Results().Len(); i++ {
			out = append(out, v.freshVal(e.st, "ret_dyn", sig.Results().At(i).Type()))
		}
		return out
	}
	// function values are modelled as pure functions of their arguments
	v.trust("function values (closures, comparators, filters) called from verified code are pure, deterministic functions of their argument values (except those declared impure)")
	sorts := []string{"Int"}
	terms := []string{fv.S}
	for _, a := range args {
		sorts = append(sorts, v.d.sortOf(a.T))
		terms = append(terms, a.S)
	}
	var out []Val
	for i := 0; i < sig.Results().Len(); i++ {
		rt := sig.Results().At(i).Type()
		name := fmt.Sprintf("app%d_%s", i, sanitize(strings.Join(sorts, "_")+"_"+v.d.sortOf(rt)))
		v.d.declareFun(name, sorts, v.d.sortOf(rt))
		r := Val{T: rt, S: fmt.Sprintf("(%s %s)", name, strings.Join(terms, " "))}
		if e.inQuant == 0 {
			r = v.nameVal(e, r, "fv")
			for _, a := range v.typeInvNoAlloc(r) {
				e.st.assume(a)
			}
		}
		out = append(out, r)
	}
	return out
}

// ---------- known external functions ----------

func (v *V) knownExternal(e *Env, fn *types.Func, recv *Val, call *ast.CallExpr) ([]Val, bool) {
	full := fn.FullName()
	arg := func(i int) Val { return e.eval(call.Args[i]) }
	if strings.HasPrefix(full, "sync/atomic.") && !e.spec {
		// statistics counters and flags updated atomically are not modelled: the operands are not
		// evaluated (they are addresses of fields), a returned value is unconstrained
		v.abstraction("sync/atomic operations (statistics counters) are not modelled: " + full + " at " + v.prog.pos(call.Pos()))
		sig := fn.Type().(*types.Signature)
		var out []Val
		for i := 0; i < sig.Results().Len(); i++ {
			out = append(out, v.freshVal(e.st, "atomic", sig.Results().At(i).Type()))
		}
		return out, true
	}
	switch full {
	case "math.Float64bits":
		a := v.coerce(e, arg(0), tFloat64)
		if v.d.mode == ModeInt {
			panic(unsupported("math.Float64bits in int mode"))
		}
		return []Val{{T: tUint64, S: a.S}}, true
	case "math.Float64frombits":
		a := v.coerce(e, arg(0), tUint64)
		if v.d.mode == ModeInt {
			panic(unsupported("math.Float64frombits in int mode"))
		}
		return []Val{{T: tFloat64, S: a.S}}, true
	case "math.Inf":
		a := arg(0)
		pos, neg := floatLit(math.Inf(1), 64), floatLit(math.Inf(-1), 64)
		if a.C != nil {
			if constant.Sign(a.C) >= 0 {
				return []Val{{T: tFloat64, S: pos}}, true
			}
			return []Val{{T: tFloat64, S: neg}}, true
		}
		a = e.adapt(a, tInt)
		zero := Val{T: tInt, S: v.d.intLit(big.NewInt(0), tInt)}
		return []Val{{T: tFloat64, S: ite(v.compare(e, token.GEQ, a, zero), pos, neg)}}, true
	case "math.IsNaN":
		a := v.coerce(e, arg(0), tFloat64)
		v.d.usesFP = true
		return []Val{boolVal(fmt.Sprintf("(fp.isNaN %s)", toFP(a.S, 64)))}, true
	case "math.IsInf":
		a := v.coerce(e, arg(0), tFloat64)
		s := arg(1)
		v.d.usesFP = true
		fp := toFP(a.S, 64)
		if s.C != nil {
			switch constant.Sign(s.C) {
			case 0:
				return []Val{boolVal(fmt.Sprintf("(fp.isInfinite %s)", fp))}, true
			case 1:
				return []Val{boolVal(fmt.Sprintf("(and (fp.isInfinite %s) (fp.isPositive %s))", fp, fp))}, true
			default:
				return []Val{boolVal(fmt.Sprintf("(and (fp.isInfinite %s) (fp.isNegative %s))", fp, fp))}, true
			}
		}
	case "math.Copysign":
		a, b := v.coerce(e, arg(0), tFloat64), v.coerce(e, arg(1), tFloat64)
		return []Val{{T: tFloat64, S: fmt.Sprintf("(bvor (bvand %s #x7fffffffffffffff) (bvand %s #x8000000000000000))", a.S, b.S)}}, true
	case "math.Signbit":
		a := v.coerce(e, arg(0), tFloat64)
		return []Val{boolVal(fmt.Sprintf("(= ((_ extract 63 63) %s) #b1)", a.S))}, true
	case "math.Abs":
		a := v.coerce(e, arg(0), tFloat64)
		return []Val{v.fpResult(e, tFloat64, fmt.Sprintf("(fp.abs %s)", toFP(a.S, 64)))}, true
	case "math.Floor":
		a := v.coerce(e, arg(0), tFloat64)
		return []Val{v.fpResult(e, tFloat64, fmt.Sprintf("(fp.roundToIntegral RTN %s)", toFP(a.S, 64)))}, true
	case "math.Ceil":
		a := v.coerce(e, arg(0), tFloat64)
		return []Val{v.fpResult(e, tFloat64, fmt.Sprintf("(fp.roundToIntegral RTP %s)", toFP(a.S, 64)))}, true
	case "math.Sqrt":
		a := v.coerce(e, arg(0), tFloat64)
		return []Val{v.fpResult(e, tFloat64, fmt.Sprintf("(fp.sqrt RNE %s)", toFP(a.S, 64)))}, true
	case "fmt.Errorf", "errors.New":
		for _, a := range call.Args {
			e.eval(a) // evaluate for obligations
		}
		r := v.alloc(e, "err")
		return []Val{{T: fn.Type().(*types.Signature).Results().At(0).Type(), S: r}}, true
	case "fmt.Sprintf", "fmt.Sprint":
		for _, a := range call.Args {
			e.eval(a)
		}
		return []Val{v.freshVal(e.st, "sprintf", tString)}, true
	case "log.Printf", "log.Println", "fmt.Printf", "fmt.Println":
		for _, a := range call.Args {
			e.eval(a)
		}
		v.abstraction("call to " + full + " skipped (no effect on verified state)")
		return nil, true
	case "bytes.Equal":
		a, b := arg(0), arg(1)
		qn := fmt.Sprintf("k_q%d", v.nextQ())
		v.d.usesQuant = true
		_, _, la, _ := v.sliceParts(a.S)
		_, _, lb, _ := v.sliceParts(b.S)
		r := and(eq(la, lb), fmt.Sprintf("(forall ((%s %s)) (=> %s %s))", qn, v.d.idxSort(), and(v.ile(v.d.idxLit(0), qn), v.ilt(qn, la)),
			eq(v.sliceElem(e, a, qn).S, v.sliceElem(e, b, qn).S)))
		c := v.d.fresh("beq", "Bool")
		e.st.define(eq(c, r))
		return []Val{boolVal(c)}, true
	case "sort.Search":
		// sort.Search(n, f): for a monotone predicate f (obligation) the result is the least index in
		// [0,n] at which f holds (n if none). f must be a function literal with a single return.
		if e.spec {
			break
		}
		n := v.coerce(e, arg(0), tInt)
		fv := arg(1)
		ci := v.closures[fv.S]
		if ci == nil || len(ci.lit.Body.List) != 1 {
			panic(unsupported("sort.Search with a predicate that is not a single-return function literal"))
		}
		rs, ok := ci.lit.Body.List[0].(*ast.ReturnStmt)
		if !ok || len(rs.Results) != 1 || len(ci.lit.Type.Params.List) != 1 || len(ci.lit.Type.Params.List[0].Names) != 1 {
			panic(unsupported("sort.Search with a predicate that is not a single-return function literal"))
		}
		pobj, _ := ci.info.Defs[ci.lit.Type.Params.List[0].Names[0]].(*types.Var)
		if pobj == nil {
			panic(unsupported("sort.Search predicate parameter"))
		}
		predAt := func(idx string, quant bool) string {
			pe := &Env{v: v, st: e.st, info: ci.info, pkg: ci.pkg, bound: map[string]Val{}}
			if quant {
				pe.spec = true
				pe.inQuant = 1
			}
			saved, had := e.st.vars[pobj]
			e.st.vars[pobj] = Val{T: pobj.Type(), S: idx}
			r := pe.eval(rs.Results[0])
			if had {
				e.st.vars[pobj] = saved
			} else {
				delete(e.st.vars, pobj)
			}
			return r.S
		}
		// the body is executed for indices in [0,n): its own obligations (bounds) must hold there
		xi := v.d.fresh("searchidx", v.d.idxSort())
		probe := e.st.clone()
		probe.assume(and(v.ile(v.d.idxLit(0), xi), v.ilt(xi, n.S)))
		pe := &Env{v: v, st: probe, info: ci.info, pkg: ci.pkg, bound: map[string]Val{}}
		probe.vars[pobj] = Val{T: pobj.Type(), S: xi}
		pe.eval(rs.Results[0])
		v.d.usesQuant = true
		qi, qj := fmt.Sprintf("si_qi%d", v.nextQ()), fmt.Sprintf("sj_qi%d", v.nextQ())
		mono := fmt.Sprintf("(forall ((%s %s)) (forall ((%s %s)) (=> (and %s %s %s %s) %s)))", qi, v.d.idxSort(), qj, v.d.idxSort(),
			v.ile(v.d.idxLit(0), qi), v.ilt(qi, qj), v.ilt(qj, n.S), predAt(qi, true), predAt(qj, true))
		v.oblige(e, "assert", mono, call.Pos(), "sort.Search predicate is monotone (false..false,true..true) on [0,n)")
		r := v.d.fresh("search", v.d.idxSort())
		e.st.define(and(v.ile(v.d.idxLit(0), r), v.ile(r, n.S)))
		qk := fmt.Sprintf("sk_qi%d", v.nextQ())
		e.st.define(fmt.Sprintf("(forall ((%s %s)) (=> (and %s %s) (not %s)))", qk, v.d.idxSort(), v.ile(v.d.idxLit(0), qk), v.ilt(qk, r), predAt(qk, true)))
		e.st.define(implies(v.ilt(r, n.S), predAt(r, true)))
		v.trust("sort.Search(n, f) returns the least index in [0,n] at which the monotone predicate f holds")
		return []Val{{T: tInt, S: r}}, true
	case "sort.Slice", "sort.SliceStable":
		// sort.Slice(x, less) with a single-return function literal less(i, j): afterwards the elements of
		// x are SOME values (how they relate to the elements before is not modelled) that are ordered
		// with respect to less: for p < q not less(q, p). This is what the sort guarantees when less is
		// a strict weak order on the elements (listed as an assumption).
		if e.spec || len(call.Args) != 2 {
			break
		}
		x := e.eval(call.Args[0])
		stp, okS := x.T.Underlying().(*types.Slice)
		fv := arg(1)
		ci := v.closures[fv.S]
		if !okS || ci == nil || len(ci.lit.Body.List) != 1 {
			panic(unsupported("sort.Slice with a less that is not a single-return function literal"))
		}
		rs, ok := ci.lit.Body.List[0].(*ast.ReturnStmt)
		var pnames []*ast.Ident
		for _, f := range ci.lit.Type.Params.List {
			pnames = append(pnames, f.Names...)
		}
		if !ok || len(rs.Results) != 1 || len(pnames) != 2 {
			panic(unsupported("sort.Slice with a less that is not a single-return function literal"))
		}
		pi, _ := ci.info.Defs[pnames[0]].(*types.Var)
		pj, _ := ci.info.Defs[pnames[1]].(*types.Var)
		if pi == nil || pj == nil {
			panic(unsupported("sort.Slice less parameters"))
		}
		if len(e.st.guards) > 0 {
			panic(unsupported("sort.Slice inside a short-circuit operand"))
		}
		x = v.nameVal(e, x, "sorted")
		elemT := stp.Elem()
		comp, srt := v.memComp(elemT)
		xb, xoff, xln, _ := v.sliceParts(x.S)
		idx := v.d.idxSort()
		mem := e.st.heapGet(v.d, comp, srt)
		arrSort := fmt.Sprintf("(Array %s %s)", idx, v.d.sortOf(elemT))
		oldArr := v.d.fresh("sarr", arrSort)
		e.st.define(eq(oldArr, fmt.Sprintf("(select %s %s)", mem, xb)))
		narr := v.d.fresh("sarr", arrSort)
		v.d.usesQuant = true
		// outside the slice's window nothing changes
		e.st.define(fmt.Sprintf("(forall ((qj %s)) (! (=> (not (and %s %s)) (= (select %s qj) (select %s qj))) :pattern ((select %s qj))))",
			idx, v.ile(xoff, "qj"), v.ilt("qj", v.iadd(xoff, xln)), narr, oldArr, narr))
		e.st.heapSet(v.d, comp, srt, fmt.Sprintf("(store %s %s %s)", mem, xb, narr))
		if inv := v.typeInv(e.st, Val{T: elemT, S: fmt.Sprintf("(select %s qk)", narr)}); len(inv) > 0 {
			e.st.define(fmt.Sprintf("(forall ((qk %s)) (! %s :pattern ((select %s qk))))", idx, and(inv...), narr))
		}
		lessAt := func(a, b string) string {
			pe := &Env{v: v, st: e.st, info: ci.info, pkg: ci.pkg, bound: map[string]Val{}, spec: true, inQuant: 1}
			si, hi := e.st.vars[pi]
			sj, hj := e.st.vars[pj]
			e.st.vars[pi] = Val{T: pi.Type(), S: a}
			e.st.vars[pj] = Val{T: pj.Type(), S: b}
			r := pe.eval(rs.Results[0])
			if hi {
				e.st.vars[pi] = si
			} else {
				delete(e.st.vars, pi)
			}
			if hj {
				e.st.vars[pj] = sj
			} else {
				delete(e.st.vars, pj)
			}
			return r.S
		}
		qp, qq := fmt.Sprintf("sp_qi%d", v.nextQ()), fmt.Sprintf("sq_qi%d", v.nextQ())
		e.st.define(fmt.Sprintf("(forall ((%s %s)) (forall ((%s %s)) (=> (and %s %s %s) (not %s))))", qp, idx, qq, idx,
			v.ile(v.d.idxLit(0), qp), v.ilt(qp, qq), v.ilt(qq, xln), lessAt(qq, qp)))
		v.trust("sort.Slice / sort.SliceStable(x, less): afterwards x is ordered with respect to less (assumes less is a strict weak order); how the elements relate to those before the call is not modelled")
		return nil, true
	case "bytes.HasPrefix":
		a, b := arg(0), arg(1)
		a, b = v.nameVal(e, a, "a"), v.nameVal(e, b, "b")
		qn := fmt.Sprintf("k_qi%d", v.nextQ())
		v.d.usesQuant = true
		_, _, la, _ := v.sliceParts(a.S)
		_, _, lb, _ := v.sliceParts(b.S)
		r := and(v.ile(lb, la), fmt.Sprintf("(forall ((%s %s)) (=> %s %s))", qn, v.d.idxSort(), and(v.ile(v.d.idxLit(0), qn), v.ilt(qn, lb)),
			eq(v.sliceElem(e, a, qn).S, v.sliceElem(e, b, qn).S)))
		if e.inQuant > 0 || e.spec {
			return []Val{boolVal(r)}, true
		}
		c := v.d.fresh("hasprefix", "Bool")
		e.st.define(eq(c, r))
		return []Val{boolVal(c)}, true
	case "bytes.Compare":
		a, b := arg(0), arg(1)
		a, b = v.nameVal(e, a, "a"), v.nameVal(e, b, "b")
		lt, gt := v.bytesLess(e, a, b), v.bytesLess(e, b, a)
		c := v.d.fresh("bcmp", v.d.sortOf(tInt))
		one, mone, zero := v.d.intLit(big.NewInt(1), tInt), v.d.intLit(big.NewInt(-1), tInt), v.d.intLit(big.NewInt(0), tInt)
		e.st.define(eq(c, ite(lt, mone, ite(gt, one, zero))))
		v.trust("bytes.Compare is the lexicographic order on byte slices (modelled by its quantified definition)")
		return []Val{{T: tInt, S: c}}, true
	}
	return nil, false
}

// runesOfBytes: the conversion []rune(string(b)) for b []byte decodes b exactly like bytes.Runes(b);
// it is translated as a call of bytes.Runes under its (assumed) contract.
func (v *V) runesOfBytes(e *Env, call *ast.CallExpr, target types.Type) (Val, bool) {
	sl, ok := target.Underlying().(*types.Slice)
	if !ok || len(call.Args) != 1 {
		return Val{}, false
	}
	if b, ok := sl.Elem().Underlying().(*types.Basic); !ok || b.Kind() != types.Int32 {
		return Val{}, false
	}
	inner, ok := unparen(call.Args[0]).(*ast.CallExpr)
	if !ok || len(inner.Args) != 1 {
		return Val{}, false
	}
	itv, ok := e.info.Types[inner.Fun]
	if !ok || !itv.IsType() || !isString(itv.Type) {
		return Val{}, false
	}
	if at := e.info.TypeOf(inner.Args[0]); at == nil || !isByteSlice(at) {
		return Val{}, false
	}
	// find bytes.Runes among the packages reachable from the loaded ones
	var fn *types.Func
	seen := map[string]bool{}
	var walk func(p *types.Package)
	walk = func(p *types.Package) {
		if p == nil || seen[p.Path()] || fn != nil {
			return
		}
		seen[p.Path()] = true
		if p.Path() == "bytes" {
			fn, _ = p.Scope().Lookup("Runes").(*types.Func)
			return
		}
		for _, ip := range p.Imports() {
			walk(ip)
		}
	}
	walk(e.pkg)
	if fn == nil {
		return Val{}, false
	}
	fs := v.prog.findContract(fn, v.fi.pkg.types.Path())
	if fs == nil {
		return Val{}, false
	}
	arg := e.eval(inner.Args[0])
	rs := v.applyContract(e, fs, fn, nil, []Val{arg}, call)
	if len(rs) != 1 {
		return Val{}, false
	}
	v.trust("[]rune(string(b)) decodes b like bytes.Runes(b)")
	return Val{T: target, S: rs[0].S}, true
}
