package main

// Program loading: packages, function index, contract files, type expression resolution.

import (
	"fmt"
	"go/ast"
	"go/constant"
	"go/token"
	"go/types"
	"os"
	"path/filepath"
	"sort"
	"strings"

	"golang.org/x/tools/go/packages"
)

type PkgInfo struct {
	path  string
	pkg   *packages.Package
	types *types.Package
	info  *types.Info
	files []*ast.File
}

type FuncInfo struct {
	pkg  *PkgInfo
	decl *ast.FuncDecl
	lit  *ast.FuncLit
	obj  *types.Func
	key  string
	sig  *types.Signature
	body *ast.BlockStmt
	file string
}

func (f *FuncInfo) name() string { return f.pkg.types.Name() + "." + f.key }

type Prog struct {
	fset      *token.FileSet
	pkgs      map[string]*PkgInfo
	funcs     map[string]*FuncInfo // pkgpath.Key
	byObj     map[*types.Func]*FuncInfo
	contracts *Contracts
	repo      string
	module    string
	loadErrs  []string
	globals   map[*types.Var]*globalInfo
}

func (p *Prog) pos(pos token.Pos) string {
	if !pos.IsValid() {
		return "-"
	}
	ps := p.fset.Position(pos)
	rel, err := filepath.Rel(p.repo, ps.Filename)
	if err != nil {
		rel = ps.Filename
	}
	return fmt.Sprintf("%s:%d", rel, ps.Line)
}

func mustConst(s string) constant.Value { return constant.MakeFromLiteral(s, token.INT, 0) }

// contractPackages lists the directories under repo that contain zz_verif_contracts*.go.
func contractPackages(repo string) ([]string, error) {
	var dirs []string
	seen := map[string]bool{}
	err := filepath.Walk(repo, func(path string, info os.FileInfo, err error) error {
		if err != nil {
			return nil
		}
		if info.IsDir() {
			if info.Name() == ".git" || info.Name() == "vendor" {
				return filepath.SkipDir
			}
			return nil
		}
		if strings.HasPrefix(info.Name(), "zz_verif_") && strings.HasSuffix(info.Name(), ".go") {
			d := filepath.Dir(path)
			if !seen[d] {
				seen[d] = true
				rel, _ := filepath.Rel(repo, d)
				dirs = append(dirs, "./"+rel)
			}
		}
		return nil
	})
	sort.Strings(dirs)
	return dirs, err
}

func loadProg(repo string, patterns []string) (*Prog, error) {
	cfg := &packages.Config{
		Mode: packages.NeedName | packages.NeedFiles | packages.NeedSyntax | packages.NeedTypes | packages.NeedTypesInfo | packages.NeedImports | packages.NeedDeps | packages.NeedModule,
		Dir:  repo, BuildFlags: []string{"-tags=verif"},
		Env: append(os.Environ(), "GOFLAGS=-mod=mod", "GOPROXY=off"),
	}
	pkgs, err := packages.Load(cfg, patterns...)
	if err != nil {
		return nil, err
	}
	p := &Prog{pkgs: map[string]*PkgInfo{}, funcs: map[string]*FuncInfo{}, byObj: map[*types.Func]*FuncInfo{}, contracts: newContracts(), repo: repo}
	if len(pkgs) > 0 {
		p.fset = pkgs[0].Fset
	}
	var visit func(pk *packages.Package)
	seen := map[string]bool{}
	visit = func(pk *packages.Package) {
		if seen[pk.PkgPath] {
			return
		}
		seen[pk.PkgPath] = true
		for _, e := range pk.Errors {
			p.loadErrs = append(p.loadErrs, pk.PkgPath+": "+e.Error())
		}
		if pk.Module != nil && pk.Module.Main {
			p.module = pk.Module.Path
		}
		inRepo := pk.Module != nil && pk.Module.Main
		if inRepo && pk.TypesInfo != nil {
			pi := &PkgInfo{path: pk.PkgPath, pkg: pk, types: pk.Types, info: pk.TypesInfo, files: pk.Syntax}
			p.pkgs[pk.PkgPath] = pi
			p.indexFuncs(pi)
		}
		for _, imp := range pk.Imports {
			visit(imp)
		}
	}
	for _, pk := range pkgs {
		visit(pk)
	}
	// contracts
	for _, path := range sortedKeys(p.pkgs) {
		pi := p.pkgs[path]
		for _, f := range pi.files {
			name := filepath.Base(p.fset.Position(f.Pos()).Filename)
			if strings.HasPrefix(name, "zz_verif_") {
				p.contracts.parseFile(p.fset, f, pi.path)
			}
		}
	}
	return p, nil
}

func (p *Prog) indexFuncs(pi *PkgInfo) {
	for _, f := range pi.files {
		fname := p.fset.Position(f.Pos()).Filename
		for _, d := range f.Decls {
			fd, ok := d.(*ast.FuncDecl)
			if !ok || fd.Body == nil {
				continue
			}
			obj, _ := pi.info.Defs[fd.Name].(*types.Func)
			if obj == nil {
				continue
			}
			_, key := funcKeyOf(obj)
			fi := &FuncInfo{pkg: pi, decl: fd, obj: obj, key: key, sig: obj.Type().(*types.Signature), body: fd.Body, file: fname}
			p.funcs[pi.path+"."+key] = fi
			p.byObj[obj] = fi
			// function literals
			n := 0
			ast.Inspect(fd.Body, func(x ast.Node) bool {
				if lit, ok := x.(*ast.FuncLit); ok {
					lk := fmt.Sprintf("%s$lit%d", key, n)
					n++
					sig, _ := pi.info.TypeOf(lit).(*types.Signature)
					if sig != nil {
						p.funcs[pi.path+"."+lk] = &FuncInfo{pkg: pi, lit: lit, key: lk, sig: sig, body: lit.Body, file: fname}
					}
				}
				return true
			})
		}
	}
}

func (p *Prog) funcInfoFor(fn *types.Func) *FuncInfo {
	if fi, ok := p.byObj[fn]; ok {
		return fi
	}
	if o := fn.Origin(); o != fn {
		if fi, ok := p.byObj[o]; ok {
			return fi
		}
	}
	return nil
}

// resolveType converts a type expression written in a contract file to a types.Type.
func (p *Prog) resolveType(x ast.Expr, pkgPath string) types.Type {
	pi := p.pkgs[pkgPath]
	var pkg *types.Package
	if pi != nil {
		pkg = pi.types
	}
	t := p.resolveTypeIn(x, pkg, nil)
	if t == nil {
		panic(bindErr("cannot resolve type %s in %s", types.ExprString(x), pkgPath))
	}
	return t
}

func (p *Prog) resolveTypeIn(x ast.Expr, pkg *types.Package, e *Env) types.Type {
	switch t := x.(type) {
	case *ast.Ident:
		if pkg != nil {
			if o, ok := pkg.Scope().Lookup(t.Name).(*types.TypeName); ok {
				return o.Type()
			}
		}
		if o, ok := types.Universe.Lookup(t.Name).(*types.TypeName); ok {
			return o.Type()
		}
		return nil
	case *ast.ParenExpr:
		return p.resolveTypeIn(t.X, pkg, e)
	case *ast.StarExpr:
		el := p.resolveTypeIn(t.X, pkg, e)
		if el == nil {
			return nil
		}
		return types.NewPointer(el)
	case *ast.ArrayType:
		el := p.resolveTypeIn(t.Elt, pkg, e)
		if el == nil {
			return nil
		}
		if t.Len == nil {
			return types.NewSlice(el)
		}
		if bl, ok := t.Len.(*ast.BasicLit); ok {
			var n int64
			fmt.Sscan(bl.Value, &n)
			return types.NewArray(el, n)
		}
		return nil
	case *ast.MapType:
		k, v := p.resolveTypeIn(t.Key, pkg, e), p.resolveTypeIn(t.Value, pkg, e)
		if k == nil || v == nil {
			return nil
		}
		return types.NewMap(k, v)
	case *ast.SelectorExpr:
		id, ok := t.X.(*ast.Ident)
		if !ok || pkg == nil {
			return nil
		}
		for _, imp := range pkg.Imports() {
			if imp.Name() == id.Name {
				if o, ok := imp.Scope().Lookup(t.Sel.Name).(*types.TypeName); ok {
					return o.Type()
				}
			}
		}
		// any loaded package with that name
		for _, pi := range p.pkgs {
			if pi.types.Name() == id.Name {
				if o, ok := pi.types.Scope().Lookup(t.Sel.Name).(*types.TypeName); ok {
					return o.Type()
				}
			}
		}
		return nil
	case *ast.InterfaceType:
		if t.Methods == nil || len(t.Methods.List) == 0 {
			return types.NewInterfaceType(nil, nil)
		}
	case *ast.FuncType:
		var ps, rs []*types.Var
		if t.Params != nil {
			for _, f := range t.Params.List {
				pt := p.resolveTypeIn(f.Type, pkg, e)
				if pt == nil {
					return nil
				}
				n := len(f.Names)
				if n == 0 {
					n = 1
				}
				for i := 0; i < n; i++ {
					ps = append(ps, types.NewVar(token.NoPos, pkg, "", pt))
				}
			}
		}
		if t.Results != nil {
			for _, f := range t.Results.List {
				rt := p.resolveTypeIn(f.Type, pkg, e)
				if rt == nil {
					return nil
				}
				rs = append(rs, types.NewVar(token.NoPos, pkg, "", rt))
			}
		}
		return types.NewSignatureType(nil, nil, nil, types.NewTuple(ps...), types.NewTuple(rs...), false)
	}
	return nil
}
