package main

// Replay: turn a solver model into a concrete call of the REAL function (in-package test
// injected with `go test -overlay`), and evaluate the violated clause in Go.

import (
	"bytes"
	"context"
	"encoding/json"
	"fmt"
	"go/ast"
	"go/token"
	"go/types"
	"math"
	"math/big"
	"os"
	"os/exec"
	"path/filepath"
	"regexp"
	"strconv"
	"strings"
	"time"
)

type inputVal struct {
	name string
	t    types.Type
	goExpr string // Go expression constructing the value
}

var getValueRe = regexp.MustCompile(`\(\(?([^\s()]+|\([^()]*(?:\([^()]*\)[^()]*)*\))\s+([^\s()]+|\([^()]*(?:\([^()]*\)[^()]*)*\))\)`)

// solverValues runs the obligation script with (get-value ...) for the given terms.
func solverValues(script string, terms []string) (map[string]string, bool) {
	if len(terms) == 0 {
		return map[string]string{}, true
	}
	sc := strings.Replace(script, "(check-sat)\n(get-model)\n", "(check-sat)\n", 1)
	var sb strings.Builder
	sb.WriteString(sc)
	for _, t := range terms {
		sb.WriteString("(get-value (" + t + "))\n")
	}
	r := runSolver(context.Background(), solvers[0], sb.String(), 30*time.Second)
	lines := strings.Split(strings.TrimSpace(r.out), "\n")
	if len(lines) == 0 || strings.TrimSpace(lines[0]) != "sat" {
		return nil, false
	}
	out := map[string]string{}
	rest := strings.Join(lines[1:], " ")
	// responses come in order: ((term value))
	vals := splitTopLevel(rest)
	for i, t := range terms {
		if i >= len(vals) {
			break
		}
		// vals[i] = "((term value))" -> strip two parens, then take the value as the suffix after the term
		s := strings.TrimSpace(vals[i])
		s = strings.TrimPrefix(s, "(")
		s = strings.TrimSuffix(s, ")")
		s = strings.TrimSpace(s)
		s = strings.TrimPrefix(s, "(")
		s = strings.TrimSuffix(s, ")")
		inner := splitTopLevel(s)
		if len(inner) >= 2 {
			out[t] = strings.TrimSpace(inner[len(inner)-1])
		}
	}
	return out, true
}

// splitTopLevel splits a string into top-level s-expressions / atoms.
func splitTopLevel(s string) []string {
	var out []string
	depth, start := 0, -1
	for i, c := range s {
		switch c {
		case '(':
			if depth == 0 && start < 0 {
				start = i
			}
			depth++
		case ')':
			depth--
			if depth == 0 && start >= 0 {
				out = append(out, s[start:i+1])
				start = -1
			}
		case ' ', '\t', '\n':
			if depth == 0 && start >= 0 {
				out = append(out, s[start:i])
				start = -1
			}
		default:
			if start < 0 {
				start = i
			}
		}
	}
	if start >= 0 {
		out = append(out, s[start:])
	}
	return out
}

func parseSMTInt(s string) (*big.Int, bool) {
	s = strings.TrimSpace(s)
	if strings.HasPrefix(s, "#x") {
		b, ok := new(big.Int).SetString(s[2:], 16)
		return b, ok
	}
	if strings.HasPrefix(s, "#b") {
		b, ok := new(big.Int).SetString(s[2:], 2)
		return b, ok
	}
	if strings.HasPrefix(s, "(- ") {
		b, ok := new(big.Int).SetString(strings.TrimSuffix(strings.TrimSpace(s[3:]), ")"), 10)
		if ok {
			b.Neg(b)
		}
		return b, ok
	}
	if strings.HasPrefix(s, "(_ bv") {
		f := strings.Fields(strings.Trim(s, "()"))
		if len(f) >= 2 {
			b, ok := new(big.Int).SetString(strings.TrimPrefix(f[1], "bv"), 10)
			return b, ok
		}
	}
	b, ok := new(big.Int).SetString(s, 10)
	return b, ok
}

func goIntLit(b *big.Int, t types.Type) string {
	bits, signed, _ := intInfo(t)
	if bits == 0 {
		bits, signed = 64, true
	}
	m := new(big.Int).Lsh(big.NewInt(1), uint(bits))
	x := new(big.Int).Mod(b, m)
	if signed && x.Bit(bits-1) == 1 {
		x.Sub(x, m)
	}
	return x.String()
}

func typeStr(t types.Type, pkg *types.Package) string {
	return types.TypeString(t, func(p *types.Package) string {
		if p == pkg {
			return ""
		}
		return p.Name()
	})
}

// concreteInputs extracts Go literals for the function's inputs from the model of o.
func concreteInputs(r *FuncResult, o *Obl, script string) ([]inputVal, string) {
	v := r.V
	fi := v.fi
	var params []*types.Var
	if rv := v.recvVar(fi); rv != nil {
		params = append(params, rv)
	}
	for i := 0; i < fi.sig.Params().Len(); i++ {
		pv := v.paramVar(fi, i)
		if pv == nil {
			return nil, "unnamed parameter"
		}
		params = append(params, pv)
	}
	pkg := fi.pkg.types
	var ins []inputVal
	for _, p := range params {
		ev, ok := v.entry.vars[p]
		if !ok {
			return nil, "parameter without entry value"
		}
		if v.entry.boxed != nil && v.entry.boxed[p] {
			return nil, "address-taken parameter"
		}
		t := p.Type()
		switch u := t.Underlying().(type) {
		case *types.Basic:
			vals, ok := solverValues(script, []string{ev.S})
			if !ok {
				return nil, "no model values"
			}
			raw := vals[ev.S]
			switch {
			case u.Info()&types.IsBoolean != 0:
				ins = append(ins, inputVal{p.Name(), t, raw})
			case u.Info()&types.IsInteger != 0:
				b, ok := parseSMTInt(raw)
				if !ok {
					return nil, "cannot parse model value " + raw
				}
				ins = append(ins, inputVal{p.Name(), t, fmt.Sprintf("%s(%s)", typeStr(t, pkg), goIntLit(b, t))})
			case u.Info()&types.IsFloat != 0:
				b, ok := parseSMTInt(raw)
				if !ok {
					return nil, "cannot parse model value " + raw
				}
				if floatBits(t) == 32 {
					ins = append(ins, inputVal{p.Name(), t, fmt.Sprintf("%s(math.Float32frombits(0x%x))", typeStr(t, pkg), b.Uint64())})
				} else {
					ins = append(ins, inputVal{p.Name(), t, fmt.Sprintf("%s(math.Float64frombits(0x%x))", typeStr(t, pkg), b.Uint64())})
				}
			default:
				return nil, "parameter type " + t.String() + " cannot be reconstructed from a model"
			}
		case *types.Slice:
			eb, ok := u.Elem().Underlying().(*types.Basic)
			if !ok || eb.Info()&types.IsInteger == 0 {
				return nil, "parameter type " + t.String() + " cannot be reconstructed from a model"
			}
			lenT, baseT := "(sl_len "+ev.S+")", "(sl_base "+ev.S+")"
			vals, ok := solverValues(script, []string{lenT, baseT})
			if !ok {
				return nil, "no model values"
			}
			n, ok1 := parseSMTInt(vals[lenT])
			b, ok2 := parseSMTInt(vals[baseT])
			if !ok1 || !ok2 {
				return nil, "cannot parse slice model"
			}
			if b.Sign() == 0 {
				ins = append(ins, inputVal{p.Name(), t, fmt.Sprintf("%s(nil)", typeStr(t, pkg))})
				continue
			}
			if n.Cmp(big.NewInt(4096)) > 0 {
				return nil, "model slice too long to replay"
			}
			comp, sort := v.memComp(u.Elem())
			mem := v.entry.heapGet(v.d, comp, sort)
			var terms []string
			for i := int64(0); i < n.Int64(); i++ {
				terms = append(terms, fmt.Sprintf("(select (select %s %s) %s)", mem, baseT, v.iadd("(sl_off "+ev.S+")", v.d.idxLit(i))))
			}
			// declaration of the initial memory symbol may be missing from the sliced script: use the full one
			evals, ok := solverValues(script, terms)
			if !ok && len(terms) > 0 {
				return nil, "no element values"
			}
			var elems []string
			for _, tm := range terms {
				bv, ok := parseSMTInt(evals[tm])
				if !ok {
					bv = big.NewInt(0)
				}
				elems = append(elems, goIntLit(bv, u.Elem()))
			}
			ins = append(ins, inputVal{p.Name(), t, fmt.Sprintf("%s{%s}", typeStr(t, pkg), strings.Join(elems, ", "))})
		default:
			return nil, "parameter type " + t.String() + " cannot be reconstructed from a model"
		}
	}
	return ins, ""
}

// ---- spec -> Go ----

type goCompiler struct {
	v      *V
	pkg    *types.Package
	olds   []string // Go statements evaluating old() expressions before the call
	nold   int
	specs  map[string]bool
	fail   string
	results []string
	resNames map[string]string
}

func (c *goCompiler) expr(x ast.Expr) string {
	switch t := x.(type) {
	case *ast.ParenExpr:
		return "(" + c.expr(t.X) + ")"
	case *ast.BasicLit:
		return t.Value
	case *ast.Ident:
		if n, ok := c.resNames[t.Name]; ok {
			return n
		}
		return t.Name
	case *ast.UnaryExpr:
		return t.Op.String() + c.expr(t.X)
	case *ast.BinaryExpr:
		return "(" + c.expr(t.X) + " " + t.Op.String() + " " + c.expr(t.Y) + ")"
	case *ast.SelectorExpr:
		return c.expr(t.X) + "." + t.Sel.Name
	case *ast.IndexExpr:
		return c.expr(t.X) + "[" + c.expr(t.Index) + "]"
	case *ast.SliceExpr:
		s := c.expr(t.X) + "["
		if t.Low != nil {
			s += c.expr(t.Low)
		}
		s += ":"
		if t.High != nil {
			s += c.expr(t.High)
		}
		return s + "]"
	case *ast.StarExpr:
		return "*" + c.expr(t.X)
	case *ast.ArrayType, *ast.MapType:
		return types.ExprString(x)
	case *ast.CallExpr:
		name := ""
		if id, ok := t.Fun.(*ast.Ident); ok {
			name = id.Name
		}
		arg := func(i int) string { return c.expr(t.Args[i]) }
		switch name {
		case "implies":
			return "(!(" + arg(0) + ") || (" + arg(1) + "))"
		case "iff":
			return "((" + arg(0) + ") == (" + arg(1) + "))"
		case "ite":
			return "verifIte(" + arg(0) + ", func() any { return " + arg(1) + " }, func() any { return " + arg(2) + " })"
		case "forall", "exists":
			id := t.Args[0].(*ast.Ident).Name
			init, combine := "true", "&&"
			if name == "exists" {
				init, combine = "false", "||"
			}
			return fmt.Sprintf("func() bool { r := %s; for %s := int(%s); %s < int(%s); %s++ { r = r %s (%s) }; return r }()", init, id, arg(1), id, arg(2), id, combine, arg(3))
		case "nilp":
			return "(" + arg(0) + " == nil)"
		case "old":
			c.nold++
			n := fmt.Sprintf("verifOld%d", c.nold)
			c.olds = append(c.olds, fmt.Sprintf("%s := verifClone(%s)", n, arg(0)))
			return n
		case "fresh", "base", "typeis", "in", "ref", "all", "any", "sameslice":
			c.fail = "spec builtin " + name + " has no executable counterpart"
			return "true"
		case "bits":
			return "math.Float64bits(" + arg(0) + ")"
		case "seqeq":
			return "verifSeqEq(" + arg(0) + ", " + arg(1) + ")"
		case "bytesLess":
			return "(bytes.Compare(" + arg(0) + ", " + arg(1) + ") < 0)"
		case "bytesLeq":
			return "(bytes.Compare(" + arg(0) + ", " + arg(1) + ") <= 0)"
		}
		if sf, ok := c.v.prog.contracts.Specs[name]; ok && name != "" {
			if sf.Body == nil {
				c.fail = "uninterpreted spec function " + name
				return "true"
			}
			c.specs[name] = true
			var as []string
			for i := range t.Args {
				as = append(as, arg(i))
			}
			return "verifSpec_" + name + "(" + strings.Join(as, ", ") + ")"
		}
		var as []string
		for i := range t.Args {
			as = append(as, arg(i))
		}
		return c.expr(t.Fun) + "(" + strings.Join(as, ", ") + ")"
	}
	c.fail = fmt.Sprintf("spec expression %T not compilable", x)
	return "true"
}

func (c *goCompiler) specFuncs() string {
	var sb strings.Builder
	done := map[string]bool{}
	for changed := true; changed; {
		changed = false
		for name := range c.specs {
			if done[name] {
				continue
			}
			done[name] = true
			changed = true
			sf := c.v.prog.contracts.Specs[name]
			var ps []string
			for _, p := range sf.Params {
				ps = append(ps, p.Name+" "+types.ExprString(p.Type))
			}
			ret := "bool"
			if sf.Ret != nil {
				ret = types.ExprString(sf.Ret)
			}
			saved := c.resNames
			c.resNames = map[string]string{}
			body := c.expr(sf.Body)
			c.resNames = saved
			if strings.HasPrefix(body, "verifIte(") {
				body = body + ".(" + ret + ")"
			}
			fmt.Fprintf(&sb, "func verifSpec_%s(%s) %s { return %s(%s) }\n", name, strings.Join(ps, ", "), ret, ret, body)
		}
	}
	return sb.String()
}

func replayObligation(prog *Prog, r *FuncResult, o *Obl, verif, repo string) *ReplayResult {
	res := &ReplayResult{Detail: map[string]interface{}{}}
	v := r.V
	fi := v.fi
	if fi.decl == nil {
		res.Detail["replay"] = "not attempted: function literal"
		return res
	}
	script := buildScript(v.d.lines, v.axioms, o, false, false, v.d.mode)
	ins, mctx, why := concreteInputs2(r, o, script)
	if why != "" {
		res.Detail["replay"] = "not attempted: " + why
		return res
	}
	if len(mctx.lossy) > 0 {
		res.Detail["replay_lossy_inputs"] = mctx.lossy
	}
	pkg := fi.pkg.types
	var sb strings.Builder
	extraImports := ""
	for path, name := range mctx.imports {
		if path == "math" || path == "bytes" || path == "fmt" || path == "reflect" || path == "testing" {
			continue
		}
		extraImports += fmt.Sprintf("\t%s %q\n", name, path)
	}
	// imports used by the types of the parameters (typeStr below may add more; collect first)
	for _, in := range ins {
		mctx.typeStr(in.t)
	}
	for path, name := range mctx.imports {
		line := fmt.Sprintf("\t%s %q\n", name, path)
		if path == "math" || path == "bytes" || path == "fmt" || path == "reflect" || path == "testing" || strings.Contains(extraImports, line) {
			continue
		}
		extraImports += line
	}
	fmt.Fprintf(&sb, "package %s\n\nimport (\n\t\"bytes\"\n\t\"fmt\"\n\t\"math\"\n\t\"reflect\"\n\t\"testing\"\n%s)\n\nvar _ = bytes.Compare\nvar _ = math.Inf\nvar _ = reflect.DeepEqual\n\n", pkg.Name(), extraImports)
	sb.WriteString("func verifIte(c bool, a, b func() any) any { if c { return a() }; return b() }\n")
	sb.WriteString("func verifClone[T any](x T) T { rv := reflect.ValueOf(&x).Elem(); if rv.Kind() == reflect.Slice && !rv.IsNil() { n := reflect.MakeSlice(rv.Type(), rv.Len(), rv.Len()); reflect.Copy(n, rv); return n.Interface().(T) }; return x }\n")
	sb.WriteString("func verifSeqEq[T comparable](a, b []T) bool { if len(a) != len(b) { return false }; for i := range a { if a[i] != b[i] { return false } }; return true }\n\n")
	comp := &goCompiler{v: v, pkg: pkg, specs: map[string]bool{}, resNames: map[string]string{}}
	nres := fi.sig.Results().Len()
	var resVars []string
	for i := 0; i < nres; i++ {
		rn := fmt.Sprintf("verifRes%d", i)
		resVars = append(resVars, rn)
		comp.resNames[fmt.Sprintf("result%d", i)] = rn
		if i == 0 {
			comp.resNames["result"] = rn
		}
		if n := fi.sig.Results().At(i).Name(); n != "" && n != "_" {
			comp.resNames[n] = rn
		}
	}
	var checks []string
	var skipped []string
	for k, c := range v.spec.Ensures {
		comp.fail = ""
		g := comp.expr(c.Expr)
		if comp.fail != "" {
			skipped = append(skipped, fmt.Sprintf("ensures#%d: %s", k, comp.fail))
			continue
		}
		checks = append(checks, fmt.Sprintf("\tfunc() { defer func() { if r := recover(); r != nil { fmt.Println(\"REPLAY-SPEC-PANIC ensures#%d\", r) } }(); if !(%s) { fmt.Println(\"REPLAY-POST-VIOLATED ensures#%d: %s\") } }()\n", k, g, k, strings.ReplaceAll(c.Src, "\"", "'")))
	}
	var pre []string
	for k, c := range v.spec.Requires {
		comp.fail = ""
		mentionsGhost := false
		for _, gp := range v.spec.Ghosts {
			if mentions(c.Expr, gp.Name) {
				mentionsGhost = true
			}
		}
		if mentionsGhost {
			skipped = append(skipped, fmt.Sprintf("requires#%d mentions a ghost parameter", k))
			continue
		}
		g := comp.expr(c.Expr)
		if comp.fail != "" {
			skipped = append(skipped, fmt.Sprintf("requires#%d: %s", k, comp.fail))
			continue
		}
		pre = append(pre, fmt.Sprintf("\tif !(%s) { fmt.Println(\"REPLAY-PRE-FALSE requires#%d\"); return }\n", g, k))
	}
	sb.WriteString(comp.specFuncs())
	sb.WriteString("\nfunc TestVerifReplay(t *testing.T) {\n")
	var argNames []string
	recvName := ""
	for i, in := range ins {
		fmt.Fprintf(&sb, "\tvar %s %s = %s\n\t_ = %s\n", in.name, typeStr(in.t, pkg), in.goExpr, in.name)
		if i == 0 && fi.sig.Recv() != nil {
			recvName = in.name
			continue
		}
		argNames = append(argNames, in.name)
	}
	for _, p := range pre {
		sb.WriteString(p)
	}
	for _, s := range comp.olds {
		sb.WriteString("\t" + s + "\n")
	}
	sb.WriteString("\tdefer func() { if r := recover(); r != nil { fmt.Println(\"REPLAY-PANIC:\", r) } }()\n")
	callee := fi.decl.Name.Name
	if recvName != "" {
		callee = recvName + "." + callee
	}
	if fi.sig.Variadic() && len(argNames) > 0 {
		argNames[len(argNames)-1] += "..."
	}
	if nres > 0 {
		fmt.Fprintf(&sb, "\t%s := %s(%s)\n", strings.Join(resVars, ", "), callee, strings.Join(argNames, ", "))
		for _, rv := range resVars {
			fmt.Fprintf(&sb, "\t_ = %s\n", rv)
		}
	} else {
		fmt.Fprintf(&sb, "\t%s(%s)\n", callee, strings.Join(argNames, ", "))
	}
	sb.WriteString("\tfmt.Println(\"REPLAY-RETURNED\")\n")
	for _, c := range checks {
		sb.WriteString(c)
	}
	sb.WriteString("}\n")
	src := sb.String()
	// write overlay
	work, err := os.MkdirTemp("", "gocv-replay-")
	if err != nil {
		res.Detail["replay"] = "cannot create temp dir"
		return res
	}
	defer os.RemoveAll(work)
	testFile := filepath.Join(filepath.Dir(fi.file), "zz_verif_replay_test.go")
	realFile := filepath.Join(work, "replay_test.go")
	os.WriteFile(realFile, []byte(src), 0o644)
	ov, _ := json.Marshal(map[string]interface{}{"Replace": map[string]string{testFile: realFile}})
	ovFile := filepath.Join(work, "overlay.json")
	os.WriteFile(ovFile, ov, 0o644)
	rel, _ := filepath.Rel(repo, filepath.Dir(fi.file))
	ctx, cancel := context.WithTimeout(context.Background(), 180*time.Second)
	defer cancel()
	cmd := exec.CommandContext(ctx, "go", "test", "-overlay", ovFile, "-vet=off", "-v", "-count=1", "-timeout", "60s", "-run", "^TestVerifReplay$", "./"+rel)
	cmd.Dir = repo
	cmd.Env = append(os.Environ(), "GOFLAGS=-mod=mod", "GOPROXY=off")
	var out bytes.Buffer
	cmd.Stdout, cmd.Stderr = &out, &out
	cmd.Run()
	text := out.String()
	var inputs []string
	for _, in := range ins {
		inputs = append(inputs, in.name+" = "+in.goExpr)
	}
	res.Detail["replay_inputs"] = inputs
	res.Detail["replay_test"] = src
	res.Detail["replay_output"] = truncate(text, 4000)
	res.Detail["replay_skipped_clauses"] = skipped
	res.Detail["replay_cmd"] = "go test -overlay <overlay mapping " + testFile + "> -vet=off -count=1 -timeout 60s -run ^TestVerifReplay$ ./" + rel
	switch {
	case strings.Contains(text, "REPLAY-PRE-FALSE"):
		res.Detail["replay"] = "model inputs do not satisfy the concrete precondition (model of an abstracted value); not confirmed"
	case strings.Contains(text, "REPLAY-PANIC") && isPanicKind(o.Kind):
		res.Confirmed = true
		res.Detail["replay"] = "confirmed: the real function panics on the model input"
	case strings.Contains(text, "REPLAY-POST-VIOLATED"):
		res.Confirmed = true
		res.Detail["replay"] = "confirmed: the real function violates its postcondition on the model input"
	case strings.Contains(text, "REPLAY-PANIC"):
		res.Confirmed = true
		res.Detail["replay"] = "confirmed: the real function panics on the model input"
	case strings.Contains(text, "REPLAY-RETURNED"):
		res.Detail["replay"] = "executed: the real function returned normally and the executable clauses held (counterexample to induction, or violated clause not executable)"
	default:
		res.Detail["replay"] = "replay test did not run to completion (see replay_output)"
	}
	return res
}

func isPanicKind(k string) bool {
	switch k {
	case "bounds", "nil", "div0", "panic", "typeassert", "shift":
		return true
	}
	return false
}

var _ = token.NoPos
var _ = math.Inf
var _ = strconv.Itoa
