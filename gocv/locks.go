package main

// A sequential model of sync.Mutex / sync.RWMutex fields, enabled per contract by the clause
// `locks`. The lock state of a mutex that is a field f of a struct object x is ghost state of x:
// component L$<T>.f (held exclusively by the current thread: Bool) and R$<T>.f (number of read
// locks held by the current thread: Int). Lock on a mutex the thread already holds is a
// self-deadlock (Go mutexes are not reentrant), Unlock of a mutex it does not hold is a runtime
// fatal error: both are obligations. Contracts speak about the state with held(x.f) / rheld(x.f),
// e.g. `ensures held(s.m) == old(held(s.m))` (lock balance on every return path).
//
// Only the current thread is modelled: that other threads may hold the lock (blocking, never
// corrupting the ghost state) is outside the model, as are mutexes that are not struct fields.

import (
	"fmt"
	"go/ast"
	"go/types"
	"strings"
)

// lockTarget resolves the receiver expression of a (RW)Mutex method call to (object ref, component suffix).
func (v *V) lockTarget(e *Env, x ast.Expr) (ref string, key string, ok bool) {
	sel, isSel := unparen(x).(*ast.SelectorExpr)
	if !isSel {
		return "", "", false
	}
	var base Val
	var st *types.Struct
	base = e.eval(sel.X)
	bt := base.T
	if p, isPtr := bt.Underlying().(*types.Pointer); isPtr {
		bt = p.Elem()
	} else {
		return "", "", false // mutex inside a struct value (not reachable through a pointer): not modelled
	}
	st, _ = bt.Underlying().(*types.Struct)
	if st == nil {
		return "", "", false
	}
	found := false
	for i := 0; i < st.NumFields(); i++ {
		if st.Field(i).Name() == sel.Sel.Name {
			found = true
		}
	}
	if !found {
		return "", "", false
	}
	return base.S, typeKey(bt) + "." + sel.Sel.Name, true
}

func (v *V) lockComps(key string) (held, rcount string) {
	held, rcount = "L$"+key, "R$"+key
	if _, ok := v.d.heapSorts[held]; !ok {
		v.d.heapSorts[held] = "(Array Int Bool)"
	}
	if _, ok := v.d.heapSorts[rcount]; !ok {
		v.d.heapSorts[rcount] = "(Array Int Int)"
	}
	return
}

// lockCall models x.f.Lock() etc.; ok=false when the call is not a modelled lock operation.
func (v *V) lockCall(e *Env, fn *types.Func, call *ast.CallExpr) ([]Val, bool) {
	if v.spec == nil || !v.spec.Locks {
		return nil, false
	}
	full := fn.FullName()
	if !strings.HasPrefix(full, "(*sync.Mutex).") && !strings.HasPrefix(full, "(*sync.RWMutex).") {
		return nil, false
	}
	se, isSel := unparen(call.Fun).(*ast.SelectorExpr)
	if !isSel {
		return nil, false
	}
	ref, key, ok := v.lockTarget(e, se.X)
	if !ok {
		panic(unsupported("lock operation on %s: only mutexes that are fields of a struct reached through a pointer are modelled", types.ExprString(se.X)))
	}
	hc, rc := v.lockComps(key)
	st := e.st
	held := fmt.Sprintf("(select %s %s)", st.heapGet(v.d, hc, "(Array Int Bool)"), ref)
	rcnt := fmt.Sprintf("(select %s %s)", st.heapGet(v.d, rc, "(Array Int Int)"), ref)
	name := types.ExprString(se.X)
	switch fn.Name() {
	case "Lock":
		v.oblige(e, "lock", and(not(held), fmt.Sprintf("(= %s 0)", rcnt)), call.Pos(), "Lock of "+name+" while this thread already holds it (self-deadlock)")
		st.heapSet(v.d, hc, "(Array Int Bool)", fmt.Sprintf("(store %s %s true)", st.heapGet(v.d, hc, "(Array Int Bool)"), ref))
	case "Unlock":
		v.oblige(e, "unlock", held, call.Pos(), "Unlock of "+name+" which this thread does not hold")
		st.heapSet(v.d, hc, "(Array Int Bool)", fmt.Sprintf("(store %s %s false)", st.heapGet(v.d, hc, "(Array Int Bool)"), ref))
	case "RLock":
		v.oblige(e, "lock", not(held), call.Pos(), "RLock of "+name+" while this thread holds the write lock (self-deadlock)")
		st.heapSet(v.d, rc, "(Array Int Int)", fmt.Sprintf("(store %s %s (+ %s 1))", st.heapGet(v.d, rc, "(Array Int Int)"), ref, rcnt))
	case "RUnlock":
		v.oblige(e, "unlock", fmt.Sprintf("(> %s 0)", rcnt), call.Pos(), "RUnlock of "+name+" without a read lock held by this thread")
		st.heapSet(v.d, rc, "(Array Int Int)", fmt.Sprintf("(store %s %s (- %s 1))", st.heapGet(v.d, rc, "(Array Int Int)"), ref, rcnt))
	default:
		return nil, false
	}
	v.trust("mutex fields are modelled for the current thread only (held / read count as ghost state of the enclosing object); blocking on other threads is not modelled")
	return []Val{}, true
}

// lockSpec evaluates held(x.f) / rheld(x.f) in a contract.
func (v *V) lockSpec(e *Env, name string, call *ast.CallExpr) (Val, bool) {
	if name != "held" && name != "rheld" {
		return Val{}, false
	}
	if len(call.Args) != 1 {
		panic(bindErr("%s expects one argument: a mutex field x.f", name))
	}
	ref, key, ok := v.lockTarget(e, call.Args[0])
	if !ok {
		panic(bindErr("%s(%s): not a mutex field of a struct reached through a pointer", name, types.ExprString(call.Args[0])))
	}
	hc, rc := v.lockComps(key)
	if name == "held" {
		return Val{T: tBool, S: fmt.Sprintf("(select %s %s)", e.st.heapGet(v.d, hc, "(Array Int Bool)"), ref)}, true
	}
	return Val{T: tInt, S: fmt.Sprintf("(select %s %s)", e.st.heapGet(v.d, rc, "(Array Int Int)"), ref)}, true
}
