package main

// for k, v := range m over a map: iteration over an arbitrary duplicate-free enumeration
// keys[0..n) of the domain of m at loop entry (the order is universally quantified: keys is a fresh
// array constrained only to enumerate the domain). Inserting into or deleting from the ranged map
// inside the loop is rejected by an obligation at every map write in the loop.
//
// In invariants: iter = number of completed iterations, visited(k) = k is among keys[0..iter).

import (
	"fmt"
	"go/ast"
	"go/token"
	"go/types"
)

func (v *V) execRangeMap(fr *Frame, s *ast.RangeStmt, st *State, mt *types.Map) []Outcome {
	if v.d.mode != ModeInt {
		panic(unsupported("range over map in bv mode"))
	}
	e := v.env(st, fr)
	ls, ord := v.loopSpec(fr, s)
	label := fr.labels[s]
	m := v.nameVal(e, e.eval(s.X), "rngmap")
	dc, _, ds, _ := v.mapComps(mt)
	ks := v.d.sortOf(mt.Key())
	dom0 := v.d.fresh("dom0", fmt.Sprintf("(Array %s Bool)", ks))
	st.define(eq(dom0, fmt.Sprintf("(select %s %s)", st.heapGet(v.d, dc, ds), m.S)))
	n := v.d.fresh("nkeys", "Int")
	ml := st.heapGet(v.d, "ML", "(Array Int Int)")
	st.define(eq(n, ite(eq(m.S, "0"), "0", fmt.Sprintf("(select %s %s)", ml, m.S))))
	st.define(fmt.Sprintf("(>= %s 0)", n))
	keys := v.d.fresh("keys", fmt.Sprintf("(Array Int %s)", ks))
	v.d.usesQuant = true
	st.define(fmt.Sprintf("(forall ((ri_qi1 Int)) (=> (and (<= 0 ri_qi1) (< ri_qi1 %s)) (select %s (select %s ri_qi1))))", n, dom0, keys))
	st.define(fmt.Sprintf("(forall ((qi Int) (qj Int)) (=> (and (<= 0 qi) (< qi qj) (< qj %s)) (not (= (select %s qi) (select %s qj)))))", n, keys, keys))
	st.define(fmt.Sprintf("(forall ((rk_qa0 %s)) (=> (and (not (= %s 0)) (select %s rk_qa0)) (exists ((ri_qi0 Int)) (and (<= 0 ri_qi0) (< ri_qi0 %s) (= (select %s ri_qi0) rk_qa0)))))", ks, m.S, dom0, n, keys))
	st.define(fmt.Sprintf("(=> (= %s 0) (= %s 0))", m.S, n))
	v.trust("range over a map visits every key of the map exactly once, in an arbitrary order (Go semantics; the map is not resized inside the loop)")
	keyArrT := types.NewArray(mt.Key(), 1)
	st.ghost["$keys"] = Val{T: keyArrT, S: keys}
	st.ghost["$iter"] = Val{T: tInt, S: "0"}
	st.ghost["$rangedmap"] = Val{T: m.T, S: m.S}
	var keyObj, valObj *types.Var
	getObj := func(x ast.Expr) *types.Var {
		id, ok := x.(*ast.Ident)
		if !ok || id.Name == "_" {
			return nil
		}
		if s.Tok == token.DEFINE {
			o, _ := fr.info.Defs[id].(*types.Var)
			return o
		}
		o, _ := fr.info.Uses[id].(*types.Var)
		return o
	}
	if s.Key != nil {
		keyObj = getObj(s.Key)
	}
	if s.Value != nil {
		valObj = getObj(s.Value)
	}
	iter := func(head *State) (exits, backs []*State, escapes []Outcome) {
		i := head.ghost["$iter"].S
		f := head.clone()
		head.assume(fmt.Sprintf("(< %s %s)", i, n))
		f.assume(fmt.Sprintf("(not (< %s %s))", i, n))
		exits = append(exits, f)
		he := v.env(head, fr)
		kv := Val{T: mt.Key(), S: fmt.Sprintf("(select %s %s)", keys, i)}
		kv = v.nameVal(he, kv, "key")
		for _, a := range v.typeInv(head, kv) {
			head.assume(a)
		}
		if keyObj != nil {
			v.setVar(he, keyObj, kv)
		}
		if valObj != nil {
			val, _ := v.mapRead(he, m, kv)
			v.setVar(he, valObj, val)
		}
		for _, o := range v.execBlock(fr, s.Body.List, head) {
			switch {
			case o.kind == OutNormal, o.kind == OutContinue && (o.label == "" || o.label == label):
				cur := o.st
				ci := cur.ghost["$iter"].S
				cur.ghost["$iter"] = Val{T: tInt, S: fmt.Sprintf("(+ %s 1)", ci)}
				backs = append(backs, cur)
			case o.kind == OutBreak && (o.label == "" || o.label == label):
				exits = append(exits, o.st)
			default:
				escapes = append(escapes, o)
			}
		}
		return
	}
	extra := func(st *State) map[string]Val {
		it := st.ghost["$iter"]
		st.assume(fmt.Sprintf("(and (<= 0 %s) (<= %s %s))", it.S, it.S, n))
		return map[string]Val{"iter": it}
	}
	outs := v.runLoop(fr, s, st, ls, ord, s.Body, iter, extra)
	for _, o := range outs {
		// at a normal exit every key has been visited: visited(k) <=> k in dom0 is derivable from the
		// enumeration facts; nothing else to add
		delete(o.st.ghost, "$iter")
		delete(o.st.ghost, "$keys")
		delete(o.st.ghost, "$rangedmap")
	}
	return outs
}

// visitedKey: spec builtin visited(k) inside a map-range loop.
func (v *V) visitedKey(e *Env, k Val) string {
	keys, ok := e.st.ghost["$keys"]
	it, ok2 := e.st.ghost["$iter"]
	if !ok || !ok2 {
		panic(bindErr("visited() used outside a range-over-map loop"))
	}
	if x, ok := e.bound["iter"]; ok {
		it = x
	}
	qn := fmt.Sprintf("j_qi%d", v.nextQ())
	v.d.usesQuant = true
	return fmt.Sprintf("(exists ((%s Int)) (and (<= 0 %s) (< %s %s) (= (select %s %s) %s)))", qn, qn, qn, it.S, keys.S, qn, k.S)
}
