package main

// Expression evaluation: Go expressions (code) and spec expressions share one evaluator.

import (
	"fmt"
	"go/ast"
	"go/constant"
	"go/token"
	"go/types"
	"math/big"
	"strings"
)

type Env struct {
	v     *V
	st    *State
	spec  bool
	old   *State
	bound map[string]Val
	pkg   *types.Package // package used to resolve names in spec mode
	info  *types.Info    // type info for code expressions (nil for spec expressions)
	scope *types.Scope   // innermost scope for spec identifiers
	pos   token.Pos
	inQuant int
	proving bool // evaluating a goal in a positive position (witnesses of exists may be used)
	retVals []Val // values bound to result / result0..
}

func (e *Env) sub() *Env {
	n := *e
	n.bound = make(map[string]Val, len(e.bound)+2)
	for k, v := range e.bound {
		n.bound[k] = v
	}
	return &n
}

func (e *Env) d() *Decls { return e.v.d }

// nonProving returns an environment for sub-expressions in negative or mixed polarity.
func (e *Env) nonProving() *Env {
	if !e.proving {
		return e
	}
	n := *e
	n.proving = false
	return &n
}

var (
	tInt     = types.Typ[types.Int]
	tBool    = types.Typ[types.Bool]
	tString  = types.Typ[types.String]
	tFloat64 = types.Typ[types.Float64]
	tUint64  = types.Typ[types.Uint64]
	tInt64   = types.Typ[types.Int64]
	tByte    = types.Typ[types.Uint8]
	tUntypedInt = types.Typ[types.UntypedInt]
)

func boolVal(s string) Val { return Val{T: tBool, S: s} }

// ---------- constants ----------

func (e *Env) constVal(c constant.Value, t types.Type) Val {
	d := e.d()
	switch c.Kind() {
	case constant.Bool:
		if constant.BoolVal(c) {
			return Val{T: t, S: "true", C: c}
		}
		return Val{T: t, S: "false", C: c}
	case constant.Int:
		if isFloat(t) && !isUntyped(t) {
			f, _ := constant.Float64Val(constant.ToFloat(c))
			return Val{T: t, S: floatLit(f, floatBits(t)), C: c}
		}
		bi, ok := new(big.Int).SetString(c.ExactString(), 10)
		if !ok {
			panic(unsupported("integer constant %s", c.ExactString()))
		}
		return Val{T: t, S: d.intLit(bi, t), C: c}
	case constant.Float:
		if isInt(t) && !isUntyped(t) {
			ci := constant.ToInt(c)
			if ci.Kind() == constant.Int {
				return e.constVal(ci, t)
			}
		}
		f, _ := constant.Float64Val(c)
		bits := 64
		if !isUntyped(t) {
			bits = floatBits(t)
		}
		return Val{T: t, S: floatLit(f, bits), C: c}
	case constant.String:
		return Val{T: t, S: e.v.strLit(constant.StringVal(c)), C: c}
	}
	panic(unsupported("constant kind %v", c.Kind()))
}

// convertUntyped gives an untyped constant the type t.
func (e *Env) adapt(v Val, t types.Type) Val {
	if v.T == nil {
		return v
	}
	if b, ok := v.T.(*types.Basic); ok && b.Kind() == types.UntypedNil {
		return e.zero(t)
	}
	if !isUntyped(v.T) {
		return v
	}
	if isUntyped(t) {
		return v
	}
	if v.C != nil {
		if _, isIface := t.Underlying().(*types.Interface); isIface {
			return e.v.box(e, e.adapt(v, defaultType(v.T)), t)
		}
		return e.constVal(v.C, t)
	}
	// untyped non-constant (e.g. untyped bool from comparison)
	if isBool(t) {
		return Val{T: t, S: v.S}
	}
	return Val{T: t, S: v.S}
}

func defaultType(t types.Type) types.Type {
	return types.Default(t)
}

func (e *Env) zero(t types.Type) Val {
	d := e.d()
	switch u := t.Underlying().(type) {
	case *types.Basic:
		switch {
		case u.Info()&types.IsBoolean != 0:
			return Val{T: t, S: "false"}
		case u.Info()&types.IsInteger != 0:
			return Val{T: t, S: d.intLit(big.NewInt(0), t), C: constant.MakeInt64(0)}
		case u.Info()&types.IsFloat != 0:
			return Val{T: t, S: floatLit(0, floatBits(t))}
		case u.Info()&types.IsString != 0:
			return Val{T: t, S: e.v.strLit("")}
		}
		return Val{T: t, S: "0"}
	case *types.Pointer, *types.Map, *types.Chan, *types.Signature, *types.Interface:
		return Val{T: t, S: "0"}
	case *types.Slice:
		return Val{T: t, S: e.v.nilSlice()}
	case *types.Struct:
		name := d.sortOf(t)
		var fs []string
		for i := 0; i < u.NumFields(); i++ {
			fs = append(fs, e.zero(u.Field(i).Type()).S)
		}
		if len(fs) == 0 {
			fs = []string{"false"}
		}
		return Val{T: t, S: fmt.Sprintf("(mk_%s %s)", name, strings.Join(fs, " "))}
	case *types.Array:
		return Val{T: t, S: fmt.Sprintf("((as const %s) %s)", d.sortOf(t), e.zero(u.Elem()).S)}
	}
	panic(unsupported("zero value of %s", t))
}

func (v *V) nilSlice() string {
	z := v.d.idxLit(0)
	return fmt.Sprintf("(mk_slice 0 %s %s %s)", z, z, z)
}

// ---------- identifiers ----------

func (e *Env) lookupName(name string) (types.Object, bool) {
	if e.scope != nil {
		if _, obj := e.scope.LookupParent(name, e.pos); obj != nil {
			return obj, true
		}
	}
	if e.pkg != nil {
		if obj := e.pkg.Scope().Lookup(name); obj != nil {
			return obj, true
		}
		// imported package by name
		for _, imp := range e.pkg.Imports() {
			if imp.Name() == name {
				return types.NewPkgName(token.NoPos, e.pkg, name, imp), true
			}
		}
	}
	if obj := types.Universe.Lookup(name); obj != nil {
		return obj, true
	}
	return nil, false
}

func (e *Env) evalIdent(id *ast.Ident) Val {
	name := id.Name
	if name == "_" {
		panic(unsupported("blank identifier as value"))
	}
	if v, ok := e.bound[name]; ok {
		return v
	}
	if e.spec {
		if strings.HasPrefix(name, "result") && len(e.retVals) > 0 {
			if name == "result" {
				return e.retVals[0]
			}
			var k int
			if _, err := fmt.Sscanf(name, "result%d", &k); err == nil && k < len(e.retVals) {
				return e.retVals[k]
			}
		}
		if gv, ok := e.st.ghost[name]; ok {
			return gv
		}
	}
	var obj types.Object
	if e.info != nil {
		obj = e.info.ObjectOf(id)
	}
	if obj == nil {
		o, ok := e.lookupName(name)
		if !ok {
			panic(bindErr("identifier %q does not resolve", name))
		}
		obj = o
	}
	return e.objVal(obj, id)
}

type bindError struct{ msg string }

func (b bindError) Error() string { return b.msg }
func bindErr(f string, a ...interface{}) bindError { return bindError{fmt.Sprintf(f, a...)} }

func (e *Env) objVal(obj types.Object, id *ast.Ident) Val {
	switch o := obj.(type) {
	case *types.Const:
		return e.constVal(o.Val(), o.Type())
	case *types.Nil:
		return Val{T: types.Typ[types.UntypedNil], S: "0"}
	case *types.Var:
		return e.v.readVar(e.st, o)
	case *types.Func:
		// function value
		return Val{T: o.Type(), S: e.v.funcRef(o)}
	case *types.Builtin, *types.TypeName, *types.PkgName:
		panic(unsupported("identifier %s used as value", obj.Name()))
	}
	panic(unsupported("object %T", obj))
}

// readVar returns the current value of a variable; unbound variables (free variables of
// closures, package-level variables) get a fresh unconstrained value.
func (v *V) readVar(st *State, o *types.Var) Val {
	if val, ok := st.vars[o]; ok {
		if st.boxed != nil && st.boxed[o] {
			if _, isStruct := o.Type().Underlying().(*types.Struct); isStruct {
				e := &Env{v: v, st: st, spec: true, bound: map[string]Val{}}
				return v.deref(e, Val{T: types.NewPointer(o.Type()), S: val.S}, token.NoPos)
			}
			return v.cellRead(st, val.S, o.Type())
		}
		return val
	}
	name := o.Name()
	if o.Pkg() != nil && o.Parent() == o.Pkg().Scope() {
		name = o.Pkg().Name() + "." + name
		if gv, ok := v.globalValue(st, o); ok {
			return gv
		}
		v.note("reads package-level variable " + name + " (unconstrained symbolic value)")
	}
	val := v.freshVal(st, name, o.Type())
	st.vars[o] = val
	if v.entry != nil && v.entry != st {
		if _, ok := v.entry.vars[o]; !ok {
			v.entry.vars[o] = val // so that old(x) of a never-assigned free variable is the same value
		}
	}
	return val
}

func (v *V) freshVal(st *State, name string, t types.Type) Val {
	c := v.d.fresh(name, v.d.sortOf(t))
	val := Val{T: t, S: c}
	for _, a := range v.typeInv(st, val) {
		st.define(a)
	}
	return val
}

// typeInv: facts that hold for every value of a Go type in a well-typed state.
func (v *V) typeInv(st *State, val Val) []string {
	d := v.d
	t := val.T
	var out []string
	switch u := t.Underlying().(type) {
	case *types.Basic:
		if u.Info()&types.IsInteger != 0 && d.mode == ModeInt {
			bits, signed, _ := intInfo(u)
			lo, hi := intRange(bits, signed)
			out = append(out, fmt.Sprintf("(<= %s %s)", d.intLit(lo, t), val.S), fmt.Sprintf("(<= %s %s)", val.S, d.intLit(hi, t)))
		}
		if u.Info()&types.IsString != 0 {
			out = append(out, fmt.Sprintf("(>= (str_len %s) 0)", val.S))
		}
	case *types.Pointer, *types.Map, *types.Chan, *types.Signature, *types.Interface:
		out = append(out, fmt.Sprintf("(>= %s 0)", val.S))
		if st != nil {
			out = append(out, fmt.Sprintf("(<= %s %s)", val.S, st.alloc))
		}
		if p, ok := u.(*types.Pointer); ok {
			if _, named := p.Elem().(*types.Named); named {
				// a non-nil pointer has its static type as dynamic type when stored in an interface
				out = append(out, fmt.Sprintf("(=> (not (= %s 0)) (= (dyn_type %s) %s))", val.S, val.S, v.typeTag(t)))
			}
		}
	case *types.Slice:
		out = append(out, v.sliceWF(st, val.S)...)
	}
	return out
}

const maxLenBits = 48

func (v *V) sliceWF(st *State, s string) []string {
	d := v.d
	var out []string
	off, ln, cp := "(sl_off "+s+")", "(sl_len "+s+")", "(sl_cap "+s+")"
	lim := d.idxLit(1 << maxLenBits)
	if d.mode == ModeInt {
		out = append(out, "(>= "+off+" 0)", "(>= "+ln+" 0)", "(<= "+ln+" "+cp+")", "(<= "+cp+" "+lim+")", "(<= "+off+" "+lim+")")
	} else {
		out = append(out, "(bvsge "+off+" "+d.idxLit(0)+")", "(bvsge "+ln+" "+d.idxLit(0)+")", "(bvsle "+ln+" "+cp+")", "(bvsle "+cp+" "+lim+")", "(bvsle "+off+" "+lim+")")
	}
	out = append(out, "(>= (sl_base "+s+") 0)")
	out = append(out, fmt.Sprintf("(=> (= (sl_base %s) 0) (= %s %s))", s, cp, d.idxLit(0)))
	if st != nil {
		out = append(out, fmt.Sprintf("(<= (sl_base %s) %s)", s, st.alloc))
	}
	return out
}

// ---------- main evaluator ----------

func (e *Env) typeOfExpr(x ast.Expr) types.Type {
	if e.info != nil {
		if tv, ok := e.info.Types[x]; ok {
			return tv.Type
		}
	}
	return nil
}

func (e *Env) eval(x ast.Expr) Val {
	// constants known to the type checker
	if e.info != nil {
		if tv, ok := e.info.Types[x]; ok && tv.Value != nil {
			return e.constVal(tv.Value, tv.Type)
		}
	}
	switch x := x.(type) {
	case *ast.ParenExpr:
		return e.eval(x.X)
	case *ast.BasicLit:
		c := constant.MakeFromLiteral(x.Value, x.Kind, 0)
		var t types.Type
		switch x.Kind {
		case token.INT:
			t = types.Typ[types.UntypedInt]
		case token.FLOAT:
			t = types.Typ[types.UntypedFloat]
		case token.STRING:
			t = types.Typ[types.UntypedString]
		case token.CHAR:
			t = types.Typ[types.UntypedRune]
		default:
			panic(unsupported("literal %s", x.Value))
		}
		return e.constVal(c, t)
	case *ast.Ident:
		if x.Name == "true" && e.info == nil {
			return Val{T: types.Typ[types.UntypedBool], S: "true", C: constant.MakeBool(true)}
		}
		if x.Name == "false" && e.info == nil {
			return Val{T: types.Typ[types.UntypedBool], S: "false", C: constant.MakeBool(false)}
		}
		return e.evalIdent(x)
	case *ast.UnaryExpr:
		return e.evalUnary(x)
	case *ast.BinaryExpr:
		return e.evalBinary(x)
	case *ast.CallExpr:
		rs := e.v.evalCall(e, x)
		if len(rs) != 1 {
			panic(unsupported("multi-value call in single-value context"))
		}
		return rs[0]
	case *ast.SelectorExpr:
		return e.evalSelector(x)
	case *ast.IndexExpr:
		return e.evalIndex(x)
	case *ast.SliceExpr:
		return e.evalSliceExpr(x)
	case *ast.StarExpr:
		p := e.eval(x.X)
		return e.v.deref(e, p, x.Pos())
	case *ast.CompositeLit:
		return e.v.evalCompositeLit(e, x, nil)
	case *ast.TypeAssertExpr:
		vals := e.v.evalTypeAssert(e, x, false)
		return vals[0]
	case *ast.FuncLit:
		return e.v.funcLitVal(e, x)
	}
	panic(unsupported("expression %T", x))
}

func (e *Env) evalUnary(x *ast.UnaryExpr) Val {
	d := e.d()
	switch x.Op {
	case token.AND:
		return e.v.addressOf(e, x.X)
	case token.ARROW:
		panic(unsupported("channel receive"))
	}
	if x.Op == token.NOT {
		a := e.nonProving().eval(x.X)
		return Val{T: a.T, S: not(a.S)}
	}
	a := e.eval(x.X)
	switch x.Op {
	case token.NOT:
		return Val{T: a.T, S: not(a.S)}
	case token.ADD:
		return a
	case token.SUB:
		if a.C != nil {
			return e.constVal(constant.UnaryOp(token.SUB, a.C, 0), a.T)
		}
		if isFloat(a.T) {
			return e.v.fpResult(e, a.T, fmt.Sprintf("(fp.neg %s)", toFP(a.S, floatBits(a.T))))
		}
		if d.mode == ModeInt {
			r := Val{T: a.T, S: fmt.Sprintf("(- %s)", a.S)}
			e.v.overflowObl(e, r, x.Pos())
			return r
		}
		return Val{T: a.T, S: fmt.Sprintf("(bvneg %s)", a.S)}
	case token.XOR:
		if a.C != nil && isUntyped(a.T) {
			return e.constVal(constant.UnaryOp(token.XOR, a.C, 0), a.T)
		}
		if d.mode == ModeInt {
			panic(unsupported("bitwise complement in int mode"))
		}
		return Val{T: a.T, S: fmt.Sprintf("(bvnot %s)", a.S)}
	}
	panic(unsupported("unary operator %s", x.Op))
}

func (e *Env) evalBinary(x *ast.BinaryExpr) Val {
	switch x.Op {
	case token.LAND, token.LOR:
		a := e.eval(x.X)
		var b Val
		if e.spec {
			b = e.eval(x.Y)
		} else {
			g := a.S
			if x.Op == token.LOR {
				g = not(a.S)
			}
			e.st.guards = append(e.st.guards, g)
			b = e.eval(x.Y)
			e.st.guards = e.st.guards[:len(e.st.guards)-1]
		}
		t := a.T
		if isUntyped(t) {
			t = b.T
		}
		if x.Op == token.LAND {
			return Val{T: t, S: and(a.S, b.S)}
		}
		return Val{T: t, S: or(a.S, b.S)}
	}
	oe := e
	if x.Op == token.EQL || x.Op == token.NEQ {
		oe = e.nonProving()
	}
	a := oe.eval(x.X)
	b := oe.eval(x.Y)
	return e.binop(x.Op, a, b, x.Pos())
}

func (e *Env) binop(op token.Token, a, b Val, pos token.Pos) Val {
	d := e.d()
	isShift := op == token.SHL || op == token.SHR
	// constant folding for untyped constants
	if a.C != nil && b.C != nil && isUntyped(a.T) && isUntyped(b.T) {
		switch op {
		case token.EQL, token.NEQ, token.LSS, token.LEQ, token.GTR, token.GEQ:
			r := constant.Compare(a.C, op, b.C)
			return Val{T: types.Typ[types.UntypedBool], S: fmt.Sprint(r), C: constant.MakeBool(r)}
		case token.SHL, token.SHR:
			n, _ := constant.Uint64Val(b.C)
			return e.constVal(constant.Shift(a.C, op, uint(n)), a.T)
		case token.QUO:
			if a.C.Kind() == constant.Int && b.C.Kind() == constant.Int {
				return e.constVal(constant.BinaryOp(a.C, token.QUO_ASSIGN, b.C), a.T)
			}
			return e.constVal(constant.BinaryOp(a.C, op, b.C), types.Typ[types.UntypedFloat])
		default:
			t := a.T
			if a.C.Kind() == constant.Float || b.C.Kind() == constant.Float {
				t = types.Typ[types.UntypedFloat]
			}
			return e.constVal(constant.BinaryOp(a.C, op, b.C), t)
		}
	}
	if !isShift {
		if isUntyped(a.T) && !isUntyped(b.T) {
			a = e.adapt(a, b.T)
		} else if isUntyped(b.T) && !isUntyped(a.T) {
			b = e.adapt(b, a.T)
		} else if isUntyped(a.T) && isUntyped(b.T) {
			// both untyped, at least one non-constant (e.g. untyped bool)
			if a.C != nil {
				a = e.adapt(a, defaultType(a.T))
			}
			if b.C != nil {
				b = e.adapt(b, defaultType(b.T))
			}
		}
	} else if isUntyped(a.T) {
		a = e.adapt(a, tInt)
	}
	t := a.T
	switch op {
	case token.EQL, token.NEQ:
		r := e.v.equal(e, a, b)
		if op == token.NEQ {
			r = not(r)
		}
		return boolVal(r)
	case token.LSS, token.LEQ, token.GTR, token.GEQ:
		return boolVal(e.v.compare(e, op, a, b))
	}
	if isFloat(t) {
		fa, fb := toFP(a.S, floatBits(t)), toFP(b.S, floatBits(t))
		var f string
		switch op {
		case token.ADD:
			f = "fp.add RNE"
		case token.SUB:
			f = "fp.sub RNE"
		case token.MUL:
			f = "fp.mul RNE"
		case token.QUO:
			f = "fp.div RNE"
		default:
			panic(unsupported("float operator %s", op))
		}
		if e.v.spec != nil && e.v.spec.AbstractFP && floatBits(t) == 64 {
			// arithmetic as uninterpreted functions of the operands' bit patterns (comparisons stay
			// IEEE): decides that two formulas are the same formula, nothing about their values
			name := "absf_" + strings.TrimPrefix(strings.Fields(f)[0], "fp.")
			e.v.d.declareFun(name, []string{"(_ BitVec 64)", "(_ BitVec 64)"}, "(_ BitVec 64)")
			e.v.trust("floating-point + - * / are uninterpreted functions in " + e.v.fi.name() + " (contract clause 'floats abstract')")
			return Val{T: t, S: fmt.Sprintf("(%s %s %s)", name, a.S, b.S)}
		}
		return e.v.fpResult(e, t, fmt.Sprintf("(%s %s %s)", f, fa, fb))
	}
	if isString(t) {
		if op == token.ADD {
			return e.v.strConcat(e, a, b)
		}
		panic(unsupported("string operator %s", op))
	}
	if !isInt(t) {
		panic(unsupported("operator %s on %s", op, t))
	}
	bits, signed, _ := intInfo(t)
	if d.mode == ModeBV {
		var s string
		switch op {
		case token.ADD:
			s = fmt.Sprintf("(bvadd %s %s)", a.S, b.S)
		case token.SUB:
			s = fmt.Sprintf("(bvsub %s %s)", a.S, b.S)
		case token.MUL:
			s = fmt.Sprintf("(bvmul %s %s)", a.S, b.S)
		case token.QUO, token.REM:
			if !e.spec && !(b.C != nil && constant.Sign(b.C) != 0) {
				e.v.oblige(e, "div0", not(eq(b.S, bvLit(big.NewInt(0), bits))), pos, "division by zero")
			}
			f := map[bool]map[token.Token]string{true: {token.QUO: "bvsdiv", token.REM: "bvsrem"}, false: {token.QUO: "bvudiv", token.REM: "bvurem"}}[signed][op]
			s = fmt.Sprintf("(%s %s %s)", f, a.S, b.S)
		case token.AND:
			s = fmt.Sprintf("(bvand %s %s)", a.S, b.S)
		case token.OR:
			s = fmt.Sprintf("(bvor %s %s)", a.S, b.S)
		case token.XOR:
			s = fmt.Sprintf("(bvxor %s %s)", a.S, b.S)
		case token.AND_NOT:
			s = fmt.Sprintf("(bvand %s (bvnot %s))", a.S, b.S)
		case token.SHL, token.SHR:
			cnt := e.shiftCount(b, bits, pos)
			f := "bvshl"
			if op == token.SHR {
				f = "bvlshr"
				if signed {
					f = "bvashr"
				}
			}
			s = fmt.Sprintf("(%s %s %s)", f, a.S, cnt)
		default:
			panic(unsupported("operator %s", op))
		}
		return Val{T: t, S: s}
	}
	// ---- int mode ----
	var s string
	check := true
	switch op {
	case token.ADD:
		s = fmt.Sprintf("(+ %s %s)", a.S, b.S)
	case token.SUB:
		s = fmt.Sprintf("(- %s %s)", a.S, b.S)
	case token.MUL:
		s = fmt.Sprintf("(* %s %s)", a.S, b.S)
	case token.QUO, token.REM:
		if !e.spec && !(b.C != nil && constant.Sign(b.C) != 0) {
			e.v.oblige(e, "div0", not(eq(b.S, "0")), pos, "division by zero")
		}
		q := fmt.Sprintf("(div %s %s)", a.S, b.S)
		if signed {
			q = fmt.Sprintf("(ite (>= %s 0) (div %s %s) (- (div (- %s) %s)))", a.S, a.S, b.S, a.S, b.S)
		}
		if op == token.QUO {
			s = q
		} else {
			s = fmt.Sprintf("(- %s (* %s %s))", a.S, b.S, q)
			check = false
		}
	case token.AND:
		// x & (2^k-1)
		if k, ok := maskBits(b.C); ok {
			if signed {
				s = fmt.Sprintf("(mod %s %s)", a.S, pow2(k))
			} else {
				s = fmt.Sprintf("(mod %s %s)", a.S, pow2(k))
			}
			check = false
		} else if k, ok := maskBits(a.C); ok {
			s = fmt.Sprintf("(mod %s %s)", b.S, pow2(k))
			check = false
		} else {
			panic(unsupported("bitwise & in int mode (use mode bv)"))
		}
	case token.SHL:
		if b.C == nil {
			panic(unsupported("variable shift in int mode (use mode bv)"))
		}
		n, _ := constant.Uint64Val(b.C)
		s = fmt.Sprintf("(* %s %s)", a.S, pow2(int(n)))
	case token.SHR:
		if b.C == nil {
			panic(unsupported("variable shift in int mode (use mode bv)"))
		}
		n, _ := constant.Uint64Val(b.C)
		s = fmt.Sprintf("(div %s %s)", a.S, pow2(int(n)))
		check = false
	default:
		panic(unsupported("operator %s in int mode (use mode bv)", op))
	}
	r := Val{T: t, S: s}
	if check {
		e.v.overflowObl(e, r, pos)
	}
	return r
}

func pow2(k int) string { return new(big.Int).Lsh(big.NewInt(1), uint(k)).String() }

func maskBits(c constant.Value) (int, bool) {
	if c == nil || c.Kind() != constant.Int {
		return 0, false
	}
	bi, ok := new(big.Int).SetString(c.ExactString(), 10)
	if !ok || bi.Sign() <= 0 {
		return 0, false
	}
	bi.Add(bi, big.NewInt(1))
	if bi.BitLen() > 0 && new(big.Int).And(bi, new(big.Int).Sub(bi, big.NewInt(1))).Sign() == 0 {
		return bi.BitLen() - 1, true
	}
	return 0, false
}

// shiftCount converts a shift count to a bit-vector of the width of the shifted operand
// with Go semantics (counts >= width saturate).
func (e *Env) shiftCount(b Val, width int, pos token.Pos) string {
	if isUntyped(b.T) {
		b = e.adapt(b, types.Typ[types.Uint])
	}
	cb, csigned, ok := intInfo(b.T)
	if !ok {
		panic(unsupported("shift count type %s", b.T))
	}
	if csigned && b.C == nil && !e.spec {
		e.v.oblige(e, "shift", fmt.Sprintf("(bvsge %s %s)", b.S, bvLit(big.NewInt(0), cb)), pos, "negative shift count")
	}
	switch {
	case cb == width:
		return b.S
	case cb < width:
		return fmt.Sprintf("((_ zero_extend %d) %s)", width-cb, b.S)
	default:
		return fmt.Sprintf("(ite (bvuge %s %s) %s ((_ extract %d 0) %s))", b.S, bvLit(big.NewInt(int64(width)), cb), bvLit(big.NewInt(int64(width)), width), width-1, b.S)
	}
}

func (v *V) overflowObl(e *Env, r Val, pos token.Pos) {
	if e.spec || v.d.mode != ModeInt || isUntyped(r.T) {
		return
	}
	bits, signed, ok := intInfo(r.T)
	if !ok {
		return
	}
	lo, hi := intRange(bits, signed)
	v.oblige(e, "overflow", fmt.Sprintf("(and (<= %s %s) (<= %s %s))", smtInt(lo), r.S, r.S, smtInt(hi)), pos, "integer overflow of "+r.T.String())
}

func (v *V) fpResult(e *Env, t types.Type, fpTerm string) Val {
	v.d.usesFP = true
	bits := floatBits(t)
	c := v.d.fresh("f", fmt.Sprintf("(_ BitVec %d)", bits))
	e.st.define(eq(toFP(c, bits), fpTerm))
	return Val{T: t, S: c}
}

func (v *V) equal(e *Env, a, b Val) string {
	a, b = v.unifyNil(e, a, b)
	t := a.T
	if isFloat(t) {
		v.d.usesFP = true
		return fmt.Sprintf("(fp.eq %s %s)", toFP(a.S, floatBits(t)), toFP(b.S, floatBits(t)))
	}
	if _, ok := t.Underlying().(*types.Slice); ok {
		// only comparison with nil is legal in Go; in specs s == t is equality of slice headers
		if e.spec && !isNilSlice(v, a.S) && !isNilSlice(v, b.S) {
			return eq(a.S, b.S)
		}
		other := a
		if isNilSlice(v, a.S) {
			other = b
		}
		return eq("(sl_base "+other.S+")", "0")
	}
	if isString(t) {
		if a.C != nil && constant.StringVal(a.C) == "" {
			return eq("(str_len "+b.S+")", "0")
		}
		if b.C != nil && constant.StringVal(b.C) == "" {
			return eq("(str_len "+a.S+")", "0")
		}
	}
	// interface compared with concrete pointer etc.: both are Int refs
	return eq(a.S, b.S)
}

func isNilSlice(v *V, s string) bool { return s == v.nilSlice() }

func (v *V) unifyNil(e *Env, a, b Val) (Val, Val) {
	if ab, ok := a.T.(*types.Basic); ok && ab.Kind() == types.UntypedNil {
		a = e.zero(b.T)
	}
	if bb, ok := b.T.(*types.Basic); ok && bb.Kind() == types.UntypedNil {
		b = e.zero(a.T)
	}
	return a, b
}

func (v *V) compare(e *Env, op token.Token, a, b Val) string {
	t := a.T
	if isFloat(t) {
		v.d.usesFP = true
		f := map[token.Token]string{token.LSS: "fp.lt", token.LEQ: "fp.leq", token.GTR: "fp.gt", token.GEQ: "fp.geq"}[op]
		return fmt.Sprintf("(%s %s %s)", f, toFP(a.S, floatBits(t)), toFP(b.S, floatBits(t)))
	}
	if isString(t) {
		v.useStrOrder()
		switch op {
		case token.LSS:
			return fmt.Sprintf("(str_lt %s %s)", a.S, b.S)
		case token.GTR:
			return fmt.Sprintf("(str_lt %s %s)", b.S, a.S)
		case token.LEQ:
			return fmt.Sprintf("(not (str_lt %s %s))", b.S, a.S)
		default:
			return fmt.Sprintf("(not (str_lt %s %s))", a.S, b.S)
		}
	}
	if !isInt(t) {
		panic(unsupported("ordering comparison on %s", t))
	}
	_, signed, _ := intInfo(t)
	if v.d.mode == ModeInt {
		f := map[token.Token]string{token.LSS: "<", token.LEQ: "<=", token.GTR: ">", token.GEQ: ">="}[op]
		return fmt.Sprintf("(%s %s %s)", f, a.S, b.S)
	}
	var f string
	if signed {
		f = map[token.Token]string{token.LSS: "bvslt", token.LEQ: "bvsle", token.GTR: "bvsgt", token.GEQ: "bvsge"}[op]
	} else {
		f = map[token.Token]string{token.LSS: "bvult", token.LEQ: "bvule", token.GTR: "bvugt", token.GEQ: "bvuge"}[op]
	}
	return fmt.Sprintf("(%s %s %s)", f, a.S, b.S)
}

// convert implements the Go conversion T(x).
func (v *V) convert(e *Env, a Val, t types.Type, pos token.Pos) Val {
	d := v.d
	if a.C != nil && (isUntyped(a.T) || isInt(a.T) || isFloat(a.T)) && (isInt(t) || isFloat(t)) && !isUntyped(t) {
		if isInt(t) && a.C.Kind() == constant.Float {
			// constant float to int conversion must be exact in Go
			return e.constVal(constant.ToInt(a.C), t)
		}
		if isInt(t) && isInt(a.T) && !isUntyped(a.T) {
			// typed constant: value may need wrapping only through non-constant conversion; Go rejects overflow
		}
		return e.constVal(a.C, t)
	}
	a = e.adapt(a, t)
	if types.Identical(a.T.Underlying(), t.Underlying()) {
		return Val{T: t, S: a.S, C: a.C}
	}
	switch {
	case isInt(a.T) && isInt(t):
		sb, ssigned, _ := intInfo(a.T)
		tb, tsigned, _ := intInfo(t)
		if d.mode == ModeInt {
			lo, hi := intRange(tb, tsigned)
			if !e.spec {
				slo, shi := intRange(sb, ssigned)
				if slo.Cmp(lo) < 0 || shi.Cmp(hi) > 0 {
					v.oblige(e, "overflow", fmt.Sprintf("(and (<= %s %s) (<= %s %s))", d.intLit(lo, t), a.S, a.S, d.intLit(hi, t)), pos, fmt.Sprintf("conversion %s -> %s may truncate (int mode requires it not to)", a.T, t))
				}
			}
			return Val{T: t, S: a.S}
		}
		switch {
		case tb == sb:
			return Val{T: t, S: a.S}
		case tb < sb:
			return Val{T: t, S: fmt.Sprintf("((_ extract %d 0) %s)", tb-1, a.S)}
		case ssigned:
			return Val{T: t, S: fmt.Sprintf("((_ sign_extend %d) %s)", tb-sb, a.S)}
		default:
			return Val{T: t, S: fmt.Sprintf("((_ zero_extend %d) %s)", tb-sb, a.S)}
		}
	case isInt(a.T) && isFloat(t):
		d.usesFP = true
		fb := floatBits(t)
		eb, sbits := 11, 53
		if fb == 32 {
			eb, sbits = 8, 24
		}
		_, ssigned, _ := intInfo(a.T)
		var term string
		if d.mode == ModeInt {
			term = fmt.Sprintf("((_ to_fp %d %d) RNE (to_real %s))", eb, sbits, a.S)
		} else if ssigned {
			term = fmt.Sprintf("((_ to_fp %d %d) RNE %s)", eb, sbits, a.S)
		} else {
			term = fmt.Sprintf("((_ to_fp_unsigned %d %d) RNE %s)", eb, sbits, a.S)
		}
		return v.fpResult(e, t, term)
	case isFloat(a.T) && isInt(t):
		d.usesFP = true
		tb, tsigned, _ := intInfo(t)
		f := toFP(a.S, floatBits(a.T))
		if d.mode == ModeInt {
			return Val{T: t, S: fmt.Sprintf("(to_int (fp.to_real (fp.roundToIntegral RTZ %s)))", f)}
		}
		if tsigned {
			return Val{T: t, S: fmt.Sprintf("((_ fp.to_sbv %d) RTZ %s)", tb, f)}
		}
		return Val{T: t, S: fmt.Sprintf("((_ fp.to_ubv %d) RTZ %s)", tb, f)}
	case isFloat(a.T) && isFloat(t):
		d.usesFP = true
		fb := floatBits(t)
		eb, sbits := 11, 53
		if fb == 32 {
			eb, sbits = 8, 24
		}
		return v.fpResult(e, t, fmt.Sprintf("((_ to_fp %d %d) RNE %s)", eb, sbits, toFP(a.S, floatBits(a.T))))
	case isString(a.T) && isByteSlice(t):
		return v.strToBytes(e, a, t)
	case isByteSlice(a.T) && isString(t):
		return v.bytesToStr(e, a, t)
	case isRef(a.T) && isRef(t):
		// pointer/interface conversions keep the reference
		if _, ok := t.Underlying().(*types.Interface); ok {
			return v.box(e, a, t)
		}
		return Val{T: t, S: a.S}
	}
	if _, ok := t.Underlying().(*types.Interface); ok {
		return v.box(e, a, t)
	}
	if types.ConvertibleTo(a.T, t) && d.sortOf(a.T) == d.sortOf(t) {
		return Val{T: t, S: a.S}
	}
	panic(unsupported("conversion %s -> %s", a.T, t))
}

func isByteSlice(t types.Type) bool {
	s, ok := t.Underlying().(*types.Slice)
	if !ok {
		return false
	}
	b, ok := s.Elem().Underlying().(*types.Basic)
	return ok && b.Kind() == types.Uint8
}

// coerce converts a value for assignment to a location of type t (untyped constants,
// nil, concrete -> interface boxing).
func (v *V) coerce(e *Env, a Val, t types.Type) Val {
	if t == nil {
		return a
	}
	if ab, ok := a.T.(*types.Basic); ok && ab.Kind() == types.UntypedNil {
		return e.zero(t)
	}
	if isUntyped(a.T) {
		a = e.adapt(a, t)
		return Val{T: t, S: a.S, C: a.C}
	}
	if _, ok := t.Underlying().(*types.Interface); ok {
		if _, isI := a.T.Underlying().(*types.Interface); !isI {
			return v.box(e, a, t)
		}
		return Val{T: t, S: a.S}
	}
	return Val{T: t, S: a.S, C: a.C}
}

// box converts a concrete value to an interface value (an Int reference).
func (v *V) box(e *Env, a Val, t types.Type) Val {
	if _, isI := a.T.Underlying().(*types.Interface); isI {
		return Val{T: t, S: a.S}
	}
	if _, isP := a.T.Underlying().(*types.Pointer); isP {
		// the interface value is the pointer itself; nil pointer in an interface is non-nil in Go,
		// which we do not model: require non-nil at boxing time in code mode
		if !e.spec {
			e.st.assume(implies(not(eq(a.S, "0")), eq(fmt.Sprintf("(dyn_type %s)", a.S), v.typeTag(a.T))))
		}
		return Val{T: t, S: a.S}
	}
	if isRef(a.T) {
		return Val{T: t, S: a.S}
	}
	// value types: injective boxing function per sort
	sort := v.d.sortOf(a.T)
	fn := "box_" + sanitize(sort)
	v.d.declareFun(fn, []string{sort}, "Int")
	unfn := "unbox_" + sanitize(sort)
	v.d.declareFun(unfn, []string{"Int"}, sort)
	r := fmt.Sprintf("(%s %s)", fn, a.S)
	if !e.spec || e.inQuant == 0 {
		e.st.assume(and(fmt.Sprintf("(> %s 0)", r), eq(fmt.Sprintf("(%s %s)", unfn, r), a.S), eq(fmt.Sprintf("(dyn_type %s)", r), v.typeTag(a.T))))
	}
	return Val{T: t, S: r}
}

func (v *V) typeTag(t types.Type) string {
	k := types.TypeString(t, nil)
	if id, ok := v.typeTags[k]; ok {
		return fmt.Sprint(id)
	}
	id := len(v.typeTags) + 1
	v.typeTags[k] = id
	return fmt.Sprint(id)
}

// String2 helper for big.Int in SMT Int syntax.
type bigIntSMT = big.Int

func smtInt(b *big.Int) string {
	if b.Sign() < 0 {
		return "(- " + new(big.Int).Neg(b).String() + ")"
	}
	return b.String()
}
