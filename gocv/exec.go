package main

// Statement execution (forward symbolic execution with forking and merging).

import (
	"context"
	"fmt"
	"go/ast"
	"go/token"
	"go/types"
	"strings"
	"sync"
	"time"
)

type OutKind int

const (
	OutNormal OutKind = iota
	OutBreak
	OutContinue
	OutReturn
)

type Outcome struct {
	kind  OutKind
	label string
	st    *State
	rets  []Val
	pos   token.Pos // position of the return statement (scope of witnesses in postconditions)
}

// frame: the function (or inlined function / closure) being executed.
type Frame struct {
	fi       *FuncInfo
	info     *types.Info
	pkg      *types.Package
	results  []*types.Var // named (or synthesized) result variables
	inlined  bool
	labels   map[ast.Stmt]string
	deferBase int
}

func (v *V) env(st *State, fr *Frame) *Env {
	return &Env{v: v, st: st, info: fr.info, pkg: fr.pkg, bound: map[string]Val{}}
}

const maxPaths = 6000

func (v *V) countPath() {
	v.paths++
	if v.paths > maxPaths {
		panic(unsupported("path limit (%d) exceeded", maxPaths))
	}
}

func (v *V) execBlock(fr *Frame, stmts []ast.Stmt, st *State) []Outcome {
	cur := []*State{st}
	var outs []Outcome
	for _, s := range stmts {
		var next []*State
		for _, c := range cur {
			if c.dead {
				continue
			}
			for _, o := range v.execStmt(fr, s, c) {
				if o.st.dead {
					continue
				}
				if o.kind == OutNormal {
					next = append(next, o.st)
				} else {
					outs = append(outs, o)
				}
			}
		}
		if len(next) > 1 {
			if m := v.tryMerge(next); m != nil {
				next = []*State{m}
			}
		}
		cur = next
		if len(cur) == 0 {
			break
		}
	}
	for _, c := range cur {
		outs = append(outs, Outcome{kind: OutNormal, st: c})
	}
	return outs
}

func (v *V) tryMerge(states []*State) (res *State) {
	defer func() {
		if r := recover(); r != nil {
			if _, ok := r.(unsupportedErr); ok {
				res = nil
				return
			}
			panic(r)
		}
	}()
	if v.spec != nil && v.spec.NoMerge {
		return nil
	}
	if quantDelta(states) {
		// branch-specific quantified facts (frames, closures, quantified contract clauses) would end
		// up under a disjunction, out of reach of instantiation: keep the paths apart instead
		return nil
	}
	return mergeStates(v.d, states)
}

// quantDelta: does any state carry a quantified fact beyond the common path-condition prefix?
func quantDelta(states []*State) bool {
	var live []*State
	for _, s := range states {
		if s != nil && !s.dead {
			live = append(live, s)
		}
	}
	if len(live) < 2 {
		return false
	}
	n := len(live[0].pc)
	for _, s := range live[1:] {
		k := 0
		for k < n && k < len(s.pc) && s.pc[k] == live[0].pc[k] {
			k++
		}
		n = k
	}
	for _, s := range live {
		for _, c := range s.pc[n:] {
			if hoistable(c) {
				continue
			}
			if strings.Contains(c, "(forall ") || strings.Contains(c, "(exists ") {
				return true
			}
		}
	}
	return false
}

func (v *V) execStmt(fr *Frame, s ast.Stmt, st *State) []Outcome {
	v.countPath()
	normal := func(st *State) []Outcome { return []Outcome{{kind: OutNormal, st: st}} }
	switch s := s.(type) {
	case *ast.EmptyStmt:
		return normal(st)
	case *ast.BlockStmt:
		return v.execBlock(fr, s.List, st)
	case *ast.ExprStmt:
		e := v.env(st, fr)
		if call, ok := s.X.(*ast.CallExpr); ok {
			v.evalCall(e, call)
		} else {
			e.eval(s.X)
		}
		return normal(st)
	case *ast.DeclStmt:
		gd := s.Decl.(*ast.GenDecl)
		if gd.Tok != token.VAR {
			return normal(st)
		}
		e := v.env(st, fr)
		for _, sp := range gd.Specs {
			vs := sp.(*ast.ValueSpec)
			if len(vs.Values) == 1 && len(vs.Names) > 1 {
				vals := v.evalMulti(e, vs.Values[0], len(vs.Names))
				for i, n := range vs.Names {
					v.declVar(e, n, vals[i])
				}
				continue
			}
			for i, n := range vs.Names {
				if n.Name == "_" {
					continue
				}
				obj := fr.info.Defs[n].(*types.Var)
				if i < len(vs.Values) {
					v.declVar(e, n, v.coerce(e, e.eval(vs.Values[i]), obj.Type()))
				} else {
					v.setVar(e, obj, e.zero(obj.Type()))
				}
			}
		}
		return normal(st)
	case *ast.AssignStmt:
		v.execAssign(fr, s, st)
		return normal(st)
	case *ast.IncDecStmt:
		e := v.env(st, fr)
		cur := e.eval(s.X)
		one := e.constVal(constantOne, types.Typ[types.UntypedInt])
		op := token.ADD
		if s.Tok == token.DEC {
			op = token.SUB
		}
		v.assignTo(e, s.X, e.binop(op, cur, one, s.Pos()))
		return normal(st)
	case *ast.ReturnStmt:
		return v.execReturn(fr, s, st)
	case *ast.IfStmt:
		if s.Init != nil {
			outs := v.execStmt(fr, s.Init, st)
			if len(outs) != 1 || outs[0].kind != OutNormal {
				panic(unsupported("if-init with control flow"))
			}
			st = outs[0].st
		}
		ts, fs := v.execCond(fr, s.Cond, st)
		var outs []Outcome
		if t := v.tryMergeOrKeep(ts); true {
			for _, tstate := range t {
				outs = append(outs, v.execBlock(fr, s.Body.List, tstate)...)
			}
		}
		for _, fstate := range v.tryMergeOrKeep(fs) {
			if s.Else != nil {
				outs = append(outs, v.execStmt(fr, s.Else, fstate)...)
			} else {
				outs = append(outs, Outcome{kind: OutNormal, st: fstate})
			}
		}
		return v.mergeNormal(outs)
	case *ast.ForStmt:
		return v.execFor(fr, s, st)
	case *ast.RangeStmt:
		return v.execRange(fr, s, st)
	case *ast.BranchStmt:
		label := ""
		if s.Label != nil {
			label = s.Label.Name
		}
		switch s.Tok {
		case token.BREAK:
			return []Outcome{{kind: OutBreak, label: label, st: st}}
		case token.CONTINUE:
			return []Outcome{{kind: OutContinue, label: label, st: st}}
		}
		panic(unsupported("branch statement %s", s.Tok))
	case *ast.LabeledStmt:
		fr.labels[s.Stmt] = s.Label.Name
		outs := v.execStmt(fr, s.Stmt, st)
		for i := range outs {
			if outs[i].kind == OutBreak && outs[i].label == s.Label.Name {
				outs[i].kind, outs[i].label = OutNormal, ""
			}
		}
		return outs
	case *ast.SwitchStmt:
		return v.execSwitch(fr, s, st)
	case *ast.TypeSwitchStmt:
		return v.execTypeSwitch(fr, s, st)
	case *ast.DeferStmt:
		if lit, ok := s.Call.Fun.(*ast.FuncLit); ok {
			st.defers = append(st.defers, deferred{call: s.Call, lit: lit})
		} else {
			st.defers = append(st.defers, deferred{call: s.Call})
		}
		return normal(st)
	case *ast.GoStmt:
		v.abstraction("go statement at " + v.prog.pos(s.Pos()) + ": spawned body not executed")
		return normal(st)
	case *ast.SendStmt:
		e := v.env(st, fr)
		e.eval(s.Value)
		v.abstraction("channel send at " + v.prog.pos(s.Pos()) + " treated as a no-op event")
		return normal(st)
	}
	panic(unsupported("statement %T at %s", s, v.prog.pos(s.Pos())))
}

func (v *V) tryMergeOrKeep(states []*State) []*State {
	if len(states) <= 1 {
		return states
	}
	if m := v.tryMerge(states); m != nil {
		return []*State{m}
	}
	return states
}

// mergeNormal merges the normal outcomes of a statement into one state where possible.
func (v *V) mergeNormal(outs []Outcome) []Outcome {
	var normals []*State
	var rest []Outcome
	for _, o := range outs {
		if o.st.dead {
			continue
		}
		if o.kind == OutNormal {
			normals = append(normals, o.st)
		} else {
			rest = append(rest, o)
		}
	}
	for _, s := range v.tryMergeOrKeep(normals) {
		rest = append(rest, Outcome{kind: OutNormal, st: s})
	}
	return rest
}

// execCond evaluates a condition with control-flow semantics for && || !.
func (v *V) execCond(fr *Frame, c ast.Expr, st *State) (ts, fs []*State) {
	switch x := unparen(c).(type) {
	case *ast.BinaryExpr:
		if x.Op == token.LAND {
			t1, f1 := v.execCond(fr, x.X, st)
			fs = append(fs, f1...)
			for _, t := range t1 {
				t2, f2 := v.execCond(fr, x.Y, t)
				ts = append(ts, t2...)
				fs = append(fs, f2...)
			}
			return
		}
		if x.Op == token.LOR {
			t1, f1 := v.execCond(fr, x.X, st)
			ts = append(ts, t1...)
			for _, f := range f1 {
				t2, f2 := v.execCond(fr, x.Y, f)
				ts = append(ts, t2...)
				fs = append(fs, f2...)
			}
			return
		}
	case *ast.UnaryExpr:
		if x.Op == token.NOT {
			t, f := v.execCond(fr, x.X, st)
			return f, t
		}
	}
	e := v.env(st, fr)
	b := e.eval(c)
	if st.dead {
		return nil, nil
	}
	if b.S == "true" {
		return []*State{st}, nil
	}
	if b.S == "false" {
		return nil, []*State{st}
	}
	t := st
	f := st.clone()
	n0 := len(st.pc)
	t.assume(b.S)
	f.assume(not(b.S))
	if v.spec.Prune && v.dry == 0 {
		// drop branches that the path condition rules out (e.g. the re-seek branch of a reader
		// under a forward-target precondition): their code is then not translated at all
		var ft, ff bool
		var wg sync.WaitGroup
		wg.Add(2)
		go func() { defer wg.Done(); ft = v.feasible(t, n0) }()
		go func() { defer wg.Done(); ff = v.feasible(f, n0) }()
		wg.Wait()
		if !ft && !ff {
			// both sides refuted: the path condition itself is contradictory; keep both (nothing is lost)
			ft, ff = true, true
		}
		if ft {
			ts = []*State{t}
		}
		if ff {
			fs = []*State{f}
		}
		if !ft || !ff {
			v.pruned++
		}
		return ts, fs
	}
	return []*State{t}, []*State{f}
}

// feasible: false only when a solver shows the path condition unsatisfiable (quickly).
func (v *V) feasible(st *State, n0 int) bool {
	// the branch condition is what was assumed after the first n0 facts: the branch is infeasible iff
	// the rest implies its negation; only the hypotheses related to the condition are sent (a subset
	// being contradictory suffices)
	if len(st.pc) <= n0 {
		return true
	}
	cond := and(st.pc[n0:]...)
	o := &Obl{PC: append(append([]string(nil), st.pc[:n0]...), st.guards...), Goal: not(cond), Expect: "unsat", NDecls: len(v.d.lines), NoPre: true}
	// a small neighbourhood of the condition, a short time limit: branches worth pruning are ruled
	// out by a nearby fact (a flag of the precondition, a comparison just made)
	o.SliceDepth = 4
	script := buildScript(v.d.lines, v.axioms, o, false, true, v.d.mode)
	r := runSolver(context.Background(), solvers[0], script, 1500*time.Millisecond)
	return r.status != "unsat"
}

var constantOne = mustConst("1")

func (v *V) evalMulti(e *Env, x ast.Expr, n int) []Val {
	switch x := unparen(x).(type) {
	case *ast.CallExpr:
		rs := v.evalCall(e, x)
		if len(rs) != n {
			panic(unsupported("call returns %d values, %d expected", len(rs), n))
		}
		return rs
	case *ast.TypeAssertExpr:
		return v.evalTypeAssert(e, x, true)
	case *ast.IndexExpr:
		// v, ok := m[k]
		m := e.eval(x.X)
		mt, ok := m.T.Underlying().(*types.Map)
		if !ok {
			panic(unsupported("comma-ok index on %s", m.T))
		}
		k := v.coerce(e, e.eval(x.Index), mt.Key())
		val, present := v.mapRead(e, m, k)
		return []Val{val, boolVal(present)}
	case *ast.UnaryExpr:
		if x.Op == token.ARROW {
			panic(unsupported("channel receive"))
		}
	}
	panic(unsupported("multi-value expression %T", x))
}

func (v *V) declVar(e *Env, n *ast.Ident, val Val) {
	if n.Name == "_" {
		return
	}
	obj, ok := e.info.Defs[n].(*types.Var)
	if !ok || obj == nil {
		// redeclaration in := uses Uses
		if o2, ok := e.info.Uses[n].(*types.Var); ok {
			v.setVar(e, o2, v.coerce(e, val, o2.Type()))
			return
		}
		panic(unsupported("cannot resolve declared variable %s", n.Name))
	}
	v.setVar(e, obj, v.coerce(e, val, obj.Type()))
}

func (v *V) setVar(e *Env, obj *types.Var, val Val) {
	if len(e.st.guards) > 0 {
		panic(unsupported("assignment inside a short-circuit operand"))
	}
	val = v.nameVal(e, val, obj.Name())
	val.T = obj.Type()
	if e.st.boxed != nil && e.st.boxed[obj] {
		ref, ok := e.st.vars[obj]
		if !ok {
			r := v.alloc(e, "box_"+obj.Name())
			ref = Val{T: types.NewPointer(obj.Type()), S: r}
			e.st.vars[obj] = ref
		}
		if _, isStruct := obj.Type().Underlying().(*types.Struct); isStruct {
			// a boxed struct lives in the per-field arrays, like any *T
			ne := *e
			ne.spec = true // no nil obligation for the box itself
			v.storeThrough(&ne, Val{T: types.NewPointer(obj.Type()), S: ref.S}, val, token.NoPos)
			if _, named := obj.Type().(*types.Named); named {
				e.st.define(eq(fmt.Sprintf("(dyn_type %s)", ref.S), v.typeTag(types.NewPointer(obj.Type()))))
			}
			return
		}
		v.cellWrite(e.st, ref.S, val)
		return
	}
	e.st.vars[obj] = val
}

func (v *V) execAssign(fr *Frame, s *ast.AssignStmt, st *State) {
	e := v.env(st, fr)
	if s.Tok != token.ASSIGN && s.Tok != token.DEFINE {
		// op-assign
		op := map[token.Token]token.Token{token.ADD_ASSIGN: token.ADD, token.SUB_ASSIGN: token.SUB, token.MUL_ASSIGN: token.MUL,
			token.QUO_ASSIGN: token.QUO, token.REM_ASSIGN: token.REM, token.AND_ASSIGN: token.AND, token.OR_ASSIGN: token.OR,
			token.XOR_ASSIGN: token.XOR, token.SHL_ASSIGN: token.SHL, token.SHR_ASSIGN: token.SHR, token.AND_NOT_ASSIGN: token.AND_NOT}[s.Tok]
		cur := e.eval(s.Lhs[0])
		rhs := e.eval(s.Rhs[0])
		v.assignTo(e, s.Lhs[0], e.binop(op, cur, rhs, s.Pos()))
		return
	}
	var vals []Val
	if len(s.Rhs) == 1 && len(s.Lhs) > 1 {
		vals = v.evalMulti(e, s.Rhs[0], len(s.Lhs))
	} else {
		for _, r := range s.Rhs {
			vals = append(vals, e.eval(r))
		}
	}
	for i, l := range s.Lhs {
		if id, ok := l.(*ast.Ident); ok {
			if id.Name == "_" {
				continue
			}
			if s.Tok == token.DEFINE {
				v.declVar(e, id, vals[i])
				continue
			}
		}
		v.assignTo(e, l, vals[i])
	}
}

// assignTo stores val into the location denoted by lhs.
func (v *V) assignTo(e *Env, lhs ast.Expr, val Val) {
	switch l := unparen(lhs).(type) {
	case *ast.Ident:
		if l.Name == "_" {
			return
		}
		obj, ok := e.info.ObjectOf(l).(*types.Var)
		if !ok {
			panic(unsupported("assignment to %s", l.Name))
		}
		v.setVar(e, obj, v.coerce(e, val, obj.Type()))
	case *ast.SelectorExpr:
		sel, ok := e.info.Selections[l]
		if !ok || sel.Kind() != types.FieldVal {
			// package-level variable pkg.X
			if obj, ok := e.info.ObjectOf(l.Sel).(*types.Var); ok {
				v.setVar(e, obj, v.coerce(e, val, obj.Type()))
				return
			}
			panic(unsupported("assignment to selector %s", types.ExprString(l)))
		}
		idx := sel.Index()
		base := e.eval(l.X)
		if len(idx) > 1 {
			// walk all but the last through pointers only
			for _, i := range idx[:len(idx)-1] {
				var stt *types.Struct
				switch u := base.T.Underlying().(type) {
				case *types.Pointer:
					stt = u.Elem().Underlying().(*types.Struct)
				case *types.Struct:
					panic(unsupported("assignment through embedded struct value"))
				}
				base = v.readField(e, base, stt.Field(i), l.Pos())
			}
		}
		last := idx[len(idx)-1]
		switch u := base.T.Underlying().(type) {
		case *types.Pointer:
			f := u.Elem().Underlying().(*types.Struct).Field(last)
			v.writeFieldPtr(e, base, f, v.coerce(e, val, f.Type()), l.Pos())
		case *types.Struct:
			f := u.Field(last)
			nv := v.structUpdate(base, f, v.coerce(e, val, f.Type()))
			v.assignTo(e, l.X, nv)
		default:
			panic(unsupported("field assignment on %s", base.T))
		}
	case *ast.IndexExpr:
		base := e.eval(l.X)
		switch u := base.T.Underlying().(type) {
		case *types.Slice:
			i := e.eval(l.Index)
			base = v.nameVal(e, base, "s")
			v.oblige(e, "bounds", v.inRange(e, i, "(sl_len "+base.S+")", false), l.Pos(), "index out of range (store)")
			v.sliceStore(e, base, v.toIdx(e, i), v.coerce(e, val, u.Elem()))
		case *types.Map:
			k := v.coerce(e, e.eval(l.Index), u.Key())
			v.mapWrite(e, base, k, v.coerce(e, val, u.Elem()), l.Pos())
		case *types.Array:
			i := e.eval(l.Index)
			v.oblige(e, "bounds", v.inRange(e, i, v.d.idxLit(u.Len()), false), l.Pos(), "array index out of range (store)")
			nv := Val{T: base.T, S: fmt.Sprintf("(store %s %s %s)", base.S, v.toIdx(e, i), v.coerce(e, val, u.Elem()).S)}
			v.assignTo(e, l.X, nv)
		default:
			panic(unsupported("index assignment on %s", base.T))
		}
	case *ast.StarExpr:
		p := e.eval(l.X)
		v.storeThrough(e, p, v.coerce(e, val, p.T.Underlying().(*types.Pointer).Elem()), l.Pos())
	default:
		panic(unsupported("assignment target %T", lhs))
	}
}

func (v *V) execSwitch(fr *Frame, s *ast.SwitchStmt, st *State) []Outcome {
	if s.Init != nil {
		outs := v.execStmt(fr, s.Init, st)
		st = outs[0].st
	}
	e := v.env(st, fr)
	var tag *Val
	if s.Tag != nil {
		t := e.eval(s.Tag)
		t = v.nameVal(e, t, "tag")
		tag = &t
	}
	var outs []Outcome
	cur := st
	var defaultClause *ast.CaseClause
	clauses := s.Body.List
	for ci, c := range clauses {
		cc := c.(*ast.CaseClause)
		if cc.List == nil {
			defaultClause = cc
			continue
		}
		ce := v.env(cur, fr)
		var conds []string
		for _, x := range cc.List {
			if tag != nil {
				val := ce.eval(x)
				a, b := *tag, val
				if isUntyped(b.T) {
					b = ce.adapt(b, a.T)
				}
				conds = append(conds, v.equal(ce, a, b))
			} else {
				conds = append(conds, ce.eval(x).S)
			}
		}
		cond := or(conds...)
		t := cur.clone()
		t.assume(cond)
		cur.assume(not(cond))
		outs = append(outs, v.execCaseBody(fr, clauses, ci, t)...)
	}
	if defaultClause != nil {
		for ci, c := range clauses {
			if c == ast.Stmt(defaultClause) {
				outs = append(outs, v.execCaseBody(fr, clauses, ci, cur)...)
			}
		}
	} else {
		outs = append(outs, Outcome{kind: OutNormal, st: cur})
	}
	for i := range outs {
		if outs[i].kind == OutBreak && outs[i].label == "" {
			outs[i].kind = OutNormal
		}
	}
	return v.mergeNormal(outs)
}

func (v *V) execCaseBody(fr *Frame, clauses []ast.Stmt, ci int, st *State) []Outcome {
	cc := clauses[ci].(*ast.CaseClause)
	body := cc.Body
	if n := len(body); n > 0 {
		if b, ok := body[n-1].(*ast.BranchStmt); ok && b.Tok == token.FALLTHROUGH {
			outs := v.execBlock(fr, body[:n-1], st)
			var res []Outcome
			for _, o := range outs {
				if o.kind == OutNormal {
					res = append(res, v.execCaseBody(fr, clauses, ci+1, o.st)...)
				} else {
					res = append(res, o)
				}
			}
			return res
		}
	}
	return v.execBlock(fr, body, st)
}

func (v *V) execTypeSwitch(fr *Frame, s *ast.TypeSwitchStmt, st *State) []Outcome {
	if s.Init != nil {
		outs := v.execStmt(fr, s.Init, st)
		st = outs[0].st
	}
	var x ast.Expr
	var bind *ast.Ident
	switch a := s.Assign.(type) {
	case *ast.ExprStmt:
		x = a.X.(*ast.TypeAssertExpr).X
	case *ast.AssignStmt:
		x = a.Rhs[0].(*ast.TypeAssertExpr).X
		bind = a.Lhs[0].(*ast.Ident)
	}
	e := v.env(st, fr)
	val := e.eval(x)
	var outs []Outcome
	cur := st
	var def *ast.CaseClause
	for _, c := range s.Body.List {
		cc := c.(*ast.CaseClause)
		if cc.List == nil {
			def = cc
			continue
		}
		var conds []string
		var single types.Type
		for _, tx := range cc.List {
			t := fr.info.TypeOf(tx)
			if b, ok := t.(*types.Basic); ok && b.Kind() == types.UntypedNil {
				conds = append(conds, eq(val.S, "0"))
				continue
			}
			conds = append(conds, v.hasType(val, t))
			single = t
		}
		cond := or(conds...)
		t := cur.clone()
		t.assume(cond)
		cur.assume(not(cond))
		if bind != nil {
			if obj, ok := fr.info.Implicits[cc].(*types.Var); ok {
				bv := Val{T: obj.Type(), S: val.S}
				if len(cc.List) == 1 && single != nil {
					bv = v.unbox(v.env(t, fr), val, single)
				}
				t.vars[obj] = bv
			}
		}
		outs = append(outs, v.execBlock(fr, cc.Body, t)...)
	}
	if def != nil {
		if bind != nil {
			if obj, ok := fr.info.Implicits[def].(*types.Var); ok {
				cur.vars[obj] = Val{T: obj.Type(), S: val.S}
			}
		}
		outs = append(outs, v.execBlock(fr, def.Body, cur)...)
	} else {
		outs = append(outs, Outcome{kind: OutNormal, st: cur})
	}
	for i := range outs {
		if outs[i].kind == OutBreak && outs[i].label == "" {
			outs[i].kind = OutNormal
		}
	}
	return v.mergeNormal(outs)
}

// hasType: dynamic type test of an interface value.
func (v *V) hasType(val Val, t types.Type) string {
	if _, isIface := val.T.Underlying().(*types.Interface); !isIface && val.T != nil {
		// a value of concrete static type (spec expressions over an implementation)
		if types.Identical(val.T, t) {
			return "true"
		}
		if _, ok := t.Underlying().(*types.Interface); !ok {
			return "false"
		}
	}
	if _, ok := t.Underlying().(*types.Interface); ok {
		// interface-to-interface assertion: abstract predicate per target interface
		fn := "implements_" + typeKey(t)
		v.d.declareFun(fn, []string{"Int"}, "Bool")
		return and(not(eq(val.S, "0")), fmt.Sprintf("(%s (dyn_type %s))", fn, val.S))
	}
	return and(not(eq(val.S, "0")), eq(fmt.Sprintf("(dyn_type %s)", val.S), v.typeTag(t)))
}

func (v *V) unbox(e *Env, val Val, t types.Type) Val {
	if _, ok := t.Underlying().(*types.Interface); ok {
		return Val{T: t, S: val.S}
	}
	if isRef(t) {
		return Val{T: t, S: val.S}
	}
	sort := v.d.sortOf(t)
	fn := "box_" + sanitize(sort)
	v.d.declareFun(fn, []string{sort}, "Int")
	unfn := "unbox_" + sanitize(sort)
	v.d.declareFun(unfn, []string{"Int"}, sort)
	r := Val{T: t, S: fmt.Sprintf("(%s %s)", unfn, val.S)}
	return r
}

func (v *V) evalTypeAssert(e *Env, x *ast.TypeAssertExpr, commaOk bool) []Val {
	val := e.eval(x.X)
	var t types.Type
	if e.info != nil {
		t = e.info.TypeOf(x.Type)
	} else {
		tt, ok := v.specTypeOf(e, x.Type)
		if !ok {
			panic(bindErr("type assertion: cannot resolve type"))
		}
		t = tt
	}
	ok := v.hasType(val, t)
	if !commaOk {
		if !e.spec {
			v.oblige(e, "typeassert", ok, x.Pos(), "type assertion may fail")
		}
		return []Val{v.unbox(e, val, t)}
	}
	okc := v.d.fresh("ok", "Bool")
	e.st.define(eq(okc, ok))
	r := v.unbox(e, val, t)
	z := e.zero(t)
	return []Val{{T: t, S: ite(okc, r.S, z.S)}, boolVal(okc)}
}

// ---------- composite literals, address-of, function literals ----------

func (v *V) evalCompositeLit(e *Env, x *ast.CompositeLit, forceType types.Type) Val {
	t := forceType
	if t == nil {
		t = e.typeOfExpr(x)
	}
	if t == nil {
		tt, ok := v.specTypeOf(e, x.Type)
		if !ok {
			panic(unsupported("composite literal type"))
		}
		t = tt
	}
	switch u := t.Underlying().(type) {
	case *types.Struct:
		vals := make([]Val, u.NumFields())
		for i := range vals {
			vals[i] = e.zero(u.Field(i).Type())
		}
		for i, el := range x.Elts {
			if kv, ok := el.(*ast.KeyValueExpr); ok {
				name := kv.Key.(*ast.Ident).Name
				for j := 0; j < u.NumFields(); j++ {
					if u.Field(j).Name() == name {
						vals[j] = v.coerce(e, v.evalElt(e, kv.Value, u.Field(j).Type()), u.Field(j).Type())
					}
				}
			} else {
				vals[i] = v.coerce(e, v.evalElt(e, el, u.Field(i).Type()), u.Field(i).Type())
			}
		}
		name := v.d.sortOf(t)
		var fs []string
		for _, fv := range vals {
			fs = append(fs, fv.S)
		}
		if len(fs) == 0 {
			fs = []string{"false"}
		}
		return Val{T: t, S: fmt.Sprintf("(mk_%s %s)", name, strings.Join(fs, " "))}
	case *types.Slice:
		n := int64(len(x.Elts))
		for _, el := range x.Elts {
			if _, ok := el.(*ast.KeyValueExpr); ok {
				panic(unsupported("keyed slice literal"))
			}
		}
		s := v.makeSlice(e, t, Val{T: tInt, S: v.d.idxLit(n)}, Val{}, x.Pos(), false)
		for i, el := range x.Elts {
			v.sliceStore(e, s, v.d.idxLit(int64(i)), v.coerce(e, v.evalElt(e, el, u.Elem()), u.Elem()))
		}
		return s
	case *types.Map:
		m := v.makeMap(e, t)
		for _, el := range x.Elts {
			kv := el.(*ast.KeyValueExpr)
			k := v.coerce(e, v.evalElt(e, kv.Key, u.Key()), u.Key())
			val := v.coerce(e, v.evalElt(e, kv.Value, u.Elem()), u.Elem())
			v.mapWrite(e, m, k, val, x.Pos())
		}
		return m
	case *types.Array:
		arr := e.zero(t).S
		for i, el := range x.Elts {
			if _, ok := el.(*ast.KeyValueExpr); ok {
				panic(unsupported("keyed array literal"))
			}
			arr = fmt.Sprintf("(store %s %s %s)", arr, v.d.idxLit(int64(i)), v.coerce(e, v.evalElt(e, el, u.Elem()), u.Elem()).S)
		}
		return Val{T: t, S: arr}
	}
	panic(unsupported("composite literal of %s", t))
}

func (v *V) evalElt(e *Env, x ast.Expr, t types.Type) Val {
	if cl, ok := x.(*ast.CompositeLit); ok && cl.Type == nil {
		if p, ok := t.Underlying().(*types.Pointer); ok {
			sv := v.evalCompositeLit(e, cl, p.Elem())
			r := v.alloc(e, "lit")
			pv := Val{T: t, S: r}
			v.storeThrough(e, pv, sv, x.Pos())
			return pv
		}
		return v.evalCompositeLit(e, cl, t)
	}
	return e.eval(x)
}

func (v *V) addressOf(e *Env, x ast.Expr) Val {
	switch t := unparen(x).(type) {
	case *ast.CompositeLit:
		sv := v.evalCompositeLit(e, t, nil)
		r := v.alloc(e, "lit")
		pv := Val{T: types.NewPointer(sv.T), S: r}
		v.storeThrough(e, pv, sv, x.Pos())
		if _, named := sv.T.(*types.Named); named {
			e.st.define(eq(fmt.Sprintf("(dyn_type %s)", r), v.typeTag(pv.T)))
		}
		return pv
	case *ast.Ident:
		obj, ok := e.info.ObjectOf(t).(*types.Var)
		if ok && e.st.boxed != nil && e.st.boxed[obj] {
			ref, ok := e.st.vars[obj]
			if !ok {
				// variable declared but never assigned: box its current (fresh) value
				r := v.alloc(e, "box_"+obj.Name())
				ref = Val{T: types.NewPointer(obj.Type()), S: r}
				e.st.vars[obj] = ref
				v.cellWrite(e.st, r, v.freshVal(e.st, obj.Name(), obj.Type()))
			}
			return Val{T: types.NewPointer(obj.Type()), S: ref.S}
		}
	case *ast.IndexExpr:
		// &s[i]: pointer into a slice of structs is not modelled
	}
	panic(unsupported("address-of %s", types.ExprString(x)))
}

func (v *V) funcLitVal(e *Env, x *ast.FuncLit) Val {
	// a closure value: fresh reference; remember the literal so that known higher-order
	// callees (sort.Search) can use its body
	r := v.alloc(e, "closure")
	t := e.typeOfExpr(x)
	v.closures[r] = &closureInfo{lit: x, env: e.st, info: e.info, pkg: e.pkg}
	return Val{T: t, S: r}
}

type closureInfo struct {
	lit  *ast.FuncLit
	env  *State
	info *types.Info
	pkg  *types.Package
}
