package main

// Per-function verification driver: contracts, loops, returns, calls by contract, inlining.

import (
	"fmt"
	"go/ast"
	"go/token"
	"go/types"
	"sort"
	"strings"
)

type V struct {
	prog *Prog
	pkg  *PkgInfo
	fi   *FuncInfo
	spec *FuncSpec
	d    *Decls

	obls     []*Obl
	oblInst  map[string]int
	entry    *State
	top      *Frame
	paths    int
	dry      int
	nq       int
	specDepth int
	typeTags map[string]int
	strLits  map[string]string
	strOrder bool
	ufRange  map[string]bool
	heapVers map[string]int
	curGroup *OblGroup
	groups   []*OblGroup
	globalVals  map[*types.Var]Val
	globalBusy  map[*types.Var]bool
	globalBases []string
	nGdef       int
	axioms   []string
	closures map[string]*closureInfo

	loopOrd map[ast.Stmt]int
	callOrd map[*ast.CallExpr]string
	siteOrd map[ast.Node]int

	notes        map[string]bool
	abstractions map[string]bool
	trusted      map[string]bool
	inlineStack  []*FuncInfo
	siteMap      map[string][]token.Pos
	nLoops       int
	nReturns     int
	atUsed       map[string]bool
	usedContracts map[string]*FuncSpec
	inlined      map[string]bool
	toolErr      string
	allowed      map[string][]string
	cutUsed      map[string]bool
	opaqueUsed   map[string]bool
	impureUsed   map[string]bool
	nEpochs      int
	pruned       int
	dryUnknown   bool
}

func (v *V) note(s string)        { v.notes[s] = true }
func (v *V) abstraction(s string) { v.abstractions[s] = true }
func (v *V) trust(s string)       { v.trusted[s] = true }

func newV(prog *Prog, fi *FuncInfo, spec *FuncSpec, mode Mode) *V {
	v := &V{prog: prog, pkg: fi.pkg, fi: fi, spec: spec, d: newDecls(mode), oblInst: map[string]int{}, typeTags: map[string]int{},
		strLits: map[string]string{}, closures: map[string]*closureInfo{}, loopOrd: map[ast.Stmt]int{}, callOrd: map[*ast.CallExpr]string{},
		siteOrd: map[ast.Node]int{}, notes: map[string]bool{}, abstractions: map[string]bool{}, trusted: map[string]bool{},
		impureUsed: map[string]bool{}, opaqueUsed: map[string]bool{}, cutUsed: map[string]bool{}, atUsed: map[string]bool{}, usedContracts: map[string]*FuncSpec{}, inlined: map[string]bool{}}
	heapSortsReset(v.d)
	return v
}

// oblige records a proof obligation at the current point.
func (v *V) oblige(e *Env, kind, goal string, pos token.Pos, desc string) {
	if v.dry > 0 || e.st.dead {
		return
	}
	if goal == "true" {
		// still count it: trivially discharged obligations are obligations
	}
	name := v.oblName(kind, pos)
	v.addObl(e.st, name, kind, goal, pos, desc, "unsat")
}

func (v *V) oblName(kind string, pos token.Pos) string {
	// ordinal of this source site among sites of the same kind, in source order
	key := kind
	ord := v.sitePosOrd(key, pos)
	return fmt.Sprintf("%s/%s#%d", v.fi.name(), kind, ord)
}


func (v *V) sitePosOrd(kind string, pos token.Pos) int {
	// ordinals are assigned by source position order lazily: we record positions and renumber at the end
	m := v.sites()
	for i, p := range m[kind] {
		if p == pos {
			return i
		}
	}
	m[kind] = append(m[kind], pos)
	return len(m[kind]) - 1
}

func (v *V) sites() map[string][]token.Pos {
	if v.siteMap == nil {
		v.siteMap = map[string][]token.Pos{}
	}
	return v.siteMap
}

func (v *V) addObl(st *State, name, kind, goal string, pos token.Pos, desc, expect string) *Obl {
	if expect == "unsat" && v.curGroup == nil && (strings.HasPrefix(goal, "(=> ") || strings.HasPrefix(goal, "(and ")) {
		// the conjuncts are proved separately, but the whole goal is tried first as one query
		pc := append([]string(nil), st.pc...)
		pc = append(pc, st.guards...)
		v.curGroup = &OblGroup{Whole: &Obl{Name: name, Kind: kind, PC: pc, Goal: goal, Desc: desc, NDecls: len(v.d.lines), Expect: expect}}
		defer func() {
			if g := v.curGroup; g != nil && len(g.Members) > 1 {
				v.groups = append(v.groups, g)
			}
			v.curGroup = nil
		}()
	}
	if expect == "unsat" && strings.HasPrefix(goal, "(=> ") {
		if g, ok := parseSx(goal); ok && len(g.kids) == 3 && g.kids[2].head() == "and" && len(g.kids[2].kids) > 2 {
			var last *Obl
			for _, k := range g.kids[2].kids[1:] {
				last = v.addObl(st, name, kind, (&sx{kids: []*sx{g.kids[0], g.kids[1], k}}).String(), pos, desc, expect)
			}
			return last
		}
	}
	if expect == "unsat" && strings.HasPrefix(goal, "(and ") {
		// prove the conjuncts separately (smaller queries, sharper diagnostics)
		if g, ok := parseSx(goal); ok && g.head() == "and" && len(g.kids) > 2 {
			var last *Obl
			for _, k := range g.kids[1:] {
				last = v.addObl(st, name, kind, k.String(), pos, desc, expect)
			}
			return last
		}
	}
	v.oblInst[name]++
	pc := append([]string(nil), st.pc...)
	pc = append(pc, st.guards...)
	o := &Obl{Name: name, Kind: kind, Inst: v.oblInst[name], PC: pc, Goal: goal, Desc: desc, NDecls: len(v.d.lines), Expect: expect}
	if pos.IsValid() {
		o.Pos = v.prog.fset.Position(pos)
	}
	v.obls = append(v.obls, o)
	if v.curGroup != nil {
		v.curGroup.Members = append(v.curGroup.Members, o)
	}
	return o
}

// OblGroup: the conjuncts split off one goal.
type OblGroup struct {
	Whole   *Obl
	Members []*Obl
}

// ---------- spec environments ----------

func (v *V) specEnv(st *State, old *State, fr *Frame, scope *types.Scope, pos token.Pos) *Env {
	e := &Env{v: v, st: st, spec: true, old: old, bound: map[string]Val{}, pkg: fr.pkg, scope: scope, pos: pos}
	return e
}

func (v *V) funcScope(fi *FuncInfo) (*types.Scope, token.Pos) {
	var ft *ast.FuncType
	if fi.decl != nil {
		ft = fi.decl.Type
	} else if fi.lit != nil {
		ft = fi.lit.Type
	}
	if ft != nil {
		if sc := fi.pkg.info.Scopes[ft]; sc != nil {
			return sc, fi.body.Lbrace + 1
		}
	}
	return fi.pkg.types.Scope(), token.NoPos
}

// evalClause evaluates a spec clause to an SMT Bool; binding errors become a panic(bindError).
func (v *V) evalClause(e *Env, c Clause) string {
	r := e.eval(c.Expr)
	if !isBool(r.T) {
		panic(bindErr("clause %q is not boolean (%s)", c.Src, r.T))
	}
	return r.S
}

// ---------- function verification ----------

func (v *V) run() {
	fi := v.fi
	fr := &Frame{fi: fi, info: fi.pkg.info, pkg: fi.pkg.types, labels: map[ast.Stmt]string{}}
	v.top = fr
	v.indexSites(fi.body)
	st := &State{vars: map[types.Object]Val{}, ghost: map[string]Val{}, heap: map[string]string{}, boxed: v.boxedVars(fi)}
	st.alloc = v.d.fresh("alloc0", "Int")
	st.define(fmt.Sprintf("(>= %s 0)", st.alloc))
	sig := fi.sig
	// receiver and parameters
	bindParam := func(p *types.Var) {
		if p == nil || p.Name() == "_" || p.Name() == "" {
			return
		}
		val := v.freshVal(st, p.Name(), p.Type())
		e := &Env{v: v, st: st, info: fi.pkg.info}
		v.setVar(e, p, val)
	}
	if sig.Recv() != nil {
		bindParam(v.recvVar(fi))
	}
	for i := 0; i < sig.Params().Len(); i++ {
		bindParam(v.paramVar(fi, i))
	}
	// ghost parameters
	for _, g := range v.spec.Ghosts {
		gt := v.prog.resolveType(g.Type, fi.pkg.path)
		st.ghost[g.Name] = v.freshVal(st, "ghost_"+g.Name, gt)
	}
	// global ghost variables
	for _, name := range sortedKeys(v.prog.contracts.GhostVars) {
		g := v.prog.contracts.GhostVars[name]
		gt := v.prog.resolveType(g.Type, fi.pkg.path)
		st.ghost[name] = v.freshVal(st, "gv_"+name, gt)
	}
	// result variables
	fr.results = v.resultVars(fi)
	for _, r := range fr.results {
		e := &Env{v: v, st: st, info: fi.pkg.info}
		st.vars[r] = e.zero(r.Type())
	}
	v.entry = st.clone()
	// requires
	scope, spos := v.funcScope(fi)
	for _, c := range v.spec.Requires {
		e := v.specEnv(st, nil, fr, scope, spos)
		st.assume(v.evalClause(e, c))
	}
	// axioms stated in the contract files of this package: assumed, and listed as such
	for _, ax := range v.prog.contracts.Axioms {
		if ax.PkgPath != fi.pkg.path {
			continue
		}
		e := v.specEnv(st, nil, fr, nil, token.NoPos)
		st.assume(v.evalClause(e, ax.C))
		v.trust("axiom " + ax.Name + " (" + shortPkg(ax.PkgPath) + "): " + ax.C.Src)
	}
	// ghost locals with initial values
	for _, g := range v.spec.GhostLocals {
		gt := v.prog.resolveType(g.Type, fi.pkg.path)
		e := v.specEnv(st, nil, fr, scope, spos)
		iv := v.coerce(e, e.eval(g.Init.Expr), gt)
		st.ghost[g.Name] = Val{T: gt, S: iv.S}
	}
	v.entry = st.clone()
	// ghost assignments at entry (after the entry state is recorded: old() sees the values before them)
	for _, a := range v.spec.AtEntry {
		ge := v.specEnv(st, v.entry, fr, scope, spos)
		v.assignGhost(ge, a.Target, ge.eval(a.C.Expr))
	}
	// vacuity guard: the precondition must be satisfiable
	v.addObl(st, v.fi.name()+"/pre-sat#0", "pre-sat", "false", fi.body.Pos(), "precondition is satisfiable (vacuity guard)", "sat")
	outs := v.execBlock(fr, fi.body.List, st)
	// falling off the end == return
	for _, o := range outs {
		switch o.kind {
		case OutNormal:
			if sig.Results().Len() > 0 && !o.st.dead {
				// function with results must return explicitly; the type checker guarantees that, except after panics
			}
			ro := v.finishReturn(fr, o.st, nil, fi.body.Rbrace)
			v.checkPost(fr, ro)
		case OutReturn:
			v.checkPost(fr, o)
		default:
			panic(unsupported("break/continue escaping function body"))
		}
	}
}

func (v *V) recvVar(fi *FuncInfo) *types.Var {
	if fi.decl != nil && fi.decl.Recv != nil && len(fi.decl.Recv.List) > 0 && len(fi.decl.Recv.List[0].Names) > 0 {
		if o, ok := fi.pkg.info.Defs[fi.decl.Recv.List[0].Names[0]].(*types.Var); ok {
			return o
		}
	}
	return nil
}

func (v *V) paramVar(fi *FuncInfo, i int) *types.Var {
	var ft *ast.FuncType
	if fi.decl != nil {
		ft = fi.decl.Type
	} else {
		ft = fi.lit.Type
	}
	k := 0
	for _, f := range ft.Params.List {
		if len(f.Names) == 0 {
			if k == i {
				return nil
			}
			k++
			continue
		}
		for _, n := range f.Names {
			if k == i {
				o, _ := fi.pkg.info.Defs[n].(*types.Var)
				return o
			}
			k++
		}
	}
	return nil
}

func (v *V) resultVars(fi *FuncInfo) []*types.Var {
	var ft *ast.FuncType
	if fi.decl != nil {
		ft = fi.decl.Type
	} else {
		ft = fi.lit.Type
	}
	var out []*types.Var
	if ft.Results == nil {
		return nil
	}
	k := 0
	for _, f := range ft.Results.List {
		if len(f.Names) == 0 {
			t := fi.pkg.info.TypeOf(f.Type)
			out = append(out, types.NewVar(token.NoPos, fi.pkg.types, fmt.Sprintf("result%d", k), t))
			k++
			continue
		}
		for _, n := range f.Names {
			if o, ok := fi.pkg.info.Defs[n].(*types.Var); ok && n.Name != "_" {
				out = append(out, o)
			} else {
				out = append(out, types.NewVar(token.NoPos, fi.pkg.types, fmt.Sprintf("result%d", k), fi.pkg.info.TypeOf(f.Type)))
			}
			k++
		}
	}
	return out
}

// boxedVars: local variables whose address is taken live in heap cells.
func (v *V) boxedVars(fi *FuncInfo) map[types.Object]bool {
	m := map[types.Object]bool{}
	ast.Inspect(fi.body, func(n ast.Node) bool {
		if u, ok := n.(*ast.UnaryExpr); ok && u.Op == token.AND {
			if id, ok := unparen(u.X).(*ast.Ident); ok {
				if o, ok := fi.pkg.info.ObjectOf(id).(*types.Var); ok {
					m[o] = true
				}
			}
		}
		return true
	})
	return m
}

// indexSites numbers loops and call sites in source order (function literals excluded).
func (v *V) indexSites(body *ast.BlockStmt) {
	nloop := 0
	counts := map[string]int{}
	var walk func(n ast.Node) bool
	walk = func(n ast.Node) bool {
		switch x := n.(type) {
		case *ast.FuncLit:
			if x.Body != body {
				return false
			}
		case *ast.ForStmt:
			v.loopOrd[x] = nloop
			nloop++
		case *ast.RangeStmt:
			v.loopOrd[x] = nloop
			nloop++
		case *ast.CallExpr:
			name := types.ExprString(x.Fun)
			v.callOrd[x] = fmt.Sprintf("%s#%d", name, counts[name])
			counts[name]++
		}
		return true
	}
	ast.Inspect(body, walk)
	v.nLoops = nloop
}

func (v *V) execReturn(fr *Frame, s *ast.ReturnStmt, st *State) []Outcome {
	e := v.env(st, fr)
	var vals []Val
	if len(s.Results) == 1 && len(fr.results) > 1 {
		vals = v.evalMulti(e, s.Results[0], len(fr.results))
	} else {
		for _, r := range s.Results {
			vals = append(vals, e.eval(r))
		}
	}
	if st.dead {
		return nil
	}
	return []Outcome{v.finishReturn(fr, st, vals, s.Pos())}
}

func (v *V) finishReturn(fr *Frame, st *State, vals []Val, pos token.Pos) Outcome {
	e := v.env(st, fr)
	if vals != nil {
		for i, r := range fr.results {
			st.vars[r] = v.nameVal(e, v.coerce(e, vals[i], r.Type()), r.Name())
		}
	}
	// deferred calls, LIFO
	defers := st.defers
	st.defers = nil
	if fr.inlined {
		// defers of the inlined callee only: those pushed after entry (tracked by caller)
	}
	for i := len(defers) - 1; i >= fr.deferBase && i >= 0; i-- {
		d := defers[i]
		if d.lit != nil {
			outs := v.execBlock(fr, d.lit.Body.List, st)
			var sts []*State
			for _, o := range outs {
				if o.kind == OutNormal || o.kind == OutReturn {
					sts = append(sts, o.st)
				}
			}
			if len(sts) == 0 {
				st.dead = true
				break
			}
			// one outcome per return: the paths of the closure are merged even when they carry
			// quantified facts of their own (they then sit under a disjunction)
			m := mergeStates(v.d, sts)
			*st = *m
		} else {
			v.evalCall(v.env(st, fr), d.call)
		}
	}
	if fr.deferBase > 0 {
		st.defers = defers[:fr.deferBase]
	}
	var rets []Val
	for _, r := range fr.results {
		rets = append(rets, st.vars[r])
	}
	return Outcome{kind: OutReturn, st: st, rets: rets, pos: pos}
}

func (v *V) checkPost(fr *Frame, o Outcome) {
	if o.st.dead {
		return
	}
	scope, _ := v.funcScope(v.fi)
	v.nReturns++
	mkEnv := func() *Env {
		e := v.specEnv(o.st, v.entry, fr, scope, v.fi.body.Rbrace)
		if o.pos.IsValid() && o.pos > v.fi.body.Lbrace && o.pos < v.fi.body.Rbrace {
			// identifiers (witnesses) resolve in the scope of the return statement
			if sc := v.fi.pkg.types.Scope().Innermost(o.pos); sc != nil {
				e.scope, e.pos = sc, o.pos
			}
		}
		e.retVals = o.rets
		if rv := v.recvVar(v.fi); rv != nil {
			if ev, ok := v.entry.vars[rv]; ok && !(v.entry.boxed != nil && v.entry.boxed[rv]) {
				e.bound[rv.Name()] = ev
			}
		}
		for i := 0; i < v.fi.sig.Params().Len(); i++ {
			if pv := v.paramVar(v.fi, i); pv != nil {
				if ev, ok := v.entry.vars[pv]; ok && !(v.entry.boxed != nil && v.entry.boxed[pv]) {
					e.bound[pv.Name()] = ev
				}
			}
		}
		for i, r := range fr.results {
			if !strings.HasPrefix(r.Name(), "result") {
				e.bound[r.Name()] = o.rets[i]
			}
		}
		return e
	}
	// ghost assignments at return (e.g. the object's abstract cursor)
	for _, a := range v.spec.AtReturn {
		ge := mkEnv()
		v.assignGhost(ge, a.Target, ge.eval(a.C.Expr))
	}
	for k, c := range v.spec.Ensures {
		e := mkEnv()
		e.proving = true
		goal := v.evalClause(e, c)
		name := fmt.Sprintf("%s/post#%d", v.fi.name(), k)
		ob := v.addObl(o.st, name, "post", goal, token.NoPos, "ensures "+c.Src, "unsat")
		ob.Desc = "ensures " + c.Src
	}
	v.checkFrame(fr, o)
}

// checkFrame: heap components that were written must be covered by the modifies clause.
func (v *V) checkFrame(fr *Frame, o Outcome) {
	if v.spec.NoPanicOnly {
		return
	}
	for _, comp := range sortedKeys(o.st.heap) {
		goal, ok := v.frameGoal(fr, o.st, comp)
		if !ok {
			continue
		}
		name := fmt.Sprintf("%s/frame#%s", v.fi.name(), comp)
		v.addObl(o.st, name, "frame", goal, token.NoPos, "component "+comp+" changes only where the modifies clause allows", "unsat")
	}
}

// frameGoal: every object that existed at entry and is not named by the modifies clause has
// the same value in component comp as at entry. ok=false when nothing has to be shown.
func (v *V) frameGoal(fr *Frame, st *State, comp string) (string, bool) {
	if v.allowed == nil {
		v.allowed = v.modifiesSet(v.specEnv(v.entry.clone(), nil, fr, nil, token.NoPos), v.spec, v.top)
	}
	cur, ok := st.heap[comp]
	if !ok {
		return "", false
	}
	init, ok := v.entry.heap[comp]
	if !ok {
		init = heapInit(v.d, comp)
	}
	if cur == init {
		return "", false
	}
	al, ok := v.allowed[comp]
	if ok && al == nil {
		return "", false // whole component may change
	}
	var except []string
	for _, ref := range al {
		except = append(except, not(eq("qo", ref)))
	}
	v.d.usesQuant = true
	return fmt.Sprintf("(forall ((qo Int)) (! (=> (and (> qo 0) (<= qo %s) %s) (= (select %s qo) (select %s qo))) :pattern ((select %s qo))))", v.entry.alloc, and(except...), cur, init, cur), true
}

// modifiesSet maps heap components to the list of object refs that may change (nil = any).
func (v *V) modifiesSet(e *Env, fs *FuncSpec, fr *Frame) map[string][]string {
	out := map[string][]string{}
	if fr != nil && fr == v.top {
		scope, spos := v.funcScope(v.fi)
		e.scope, e.pos = scope, spos
	}
	for _, m := range fs.Modifies {
		v.addModifies(e, m, out)
	}
	return out
}

func (v *V) addModifies(e *Env, m string, out map[string][]string) {
	add := func(comp string, ref string, all bool) {
		if all {
			out[comp] = nil
			return
		}
		if cur, ok := out[comp]; ok && cur == nil {
			return
		}
		out[comp] = append(out[comp], ref)
	}
	if m == "alloc" {
		return
	}
	if strings.HasPrefix(m, "lock(") && strings.HasSuffix(m, ")") {
		// lock(x.f): the lock state (held / read count) of the mutex field f of object x
		xe, err := parseSpecExpr(m[5 : len(m)-1])
		if err != nil {
			panic(bindErr("modifies %s: %v", m, err))
		}
		ref, key, ok := v.lockTarget(e, xe)
		if !ok {
			panic(bindErr("modifies %s: not a mutex field of a struct reached through a pointer", m))
		}
		hc, rc := v.lockComps(key)
		e.st.heapGet(v.d, hc, "(Array Int Bool)")
		e.st.heapGet(v.d, rc, "(Array Int Int)")
		add(hc, ref, false)
		add(rc, ref, false)
		return
	}
	if strings.HasPrefix(m, "mem(") && strings.HasSuffix(m, ")") {
		te, err := parseSpecExpr(m[4 : len(m)-1])
		if err != nil {
			panic(bindErr("modifies %s: %v", m, err))
		}
		t, ok := v.specTypeOf(e, te)
		if !ok {
			panic(bindErr("modifies %s: cannot resolve type", m))
		}
		comp, sort := v.memComp(t)
		e.st.heapGet(v.d, comp, sort)
		add(comp, "", true)
		return
	}
	if strings.HasPrefix(m, "fields(") && strings.HasSuffix(m, ")") {
		// fields(T): every field of every object of struct type T
		te, err := parseSpecExpr(m[7 : len(m)-1])
		if err != nil {
			panic(bindErr("modifies %s: %v", m, err))
		}
		t, ok := v.specTypeOf(e, te)
		if !ok {
			panic(bindErr("modifies %s: cannot resolve type", m))
		}
		st, ok := t.Underlying().(*types.Struct)
		if !ok {
			panic(bindErr("modifies %s: not a struct type", m))
		}
		for i := 0; i < st.NumFields(); i++ {
			comp, sort := v.fieldComp(t, st.Field(i))
			e.st.heapGet(v.d, comp, sort)
			add(comp, "", true)
		}
		return
	}
	if strings.HasPrefix(m, "map(") && strings.HasSuffix(m, ")") {
		te, err := parseSpecExpr(m[4 : len(m)-1])
		if err != nil {
			panic(bindErr("modifies %s: %v", m, err))
		}
		x := e.eval(te)
		mt, ok := x.T.Underlying().(*types.Map)
		if !ok {
			panic(bindErr("modifies %s: not a map", m))
		}
		dc, vc, ds, vs := v.mapComps(mt)
		e.st.heapGet(v.d, dc, ds)
		e.st.heapGet(v.d, vc, vs)
		e.st.heapGet(v.d, "ML", "(Array Int Int)")
		add(dc, x.S, false)
		add(vc, x.S, false)
		add("ML", x.S, false)
		return
	}
	elems := false
	if strings.HasSuffix(m, "[*]") {
		elems = true
		m = strings.TrimSuffix(m, "[*]")
	}
	x, err := parseSpecExpr(m)
	if err != nil {
		panic(bindErr("modifies %s: %v", m, err))
	}
	if elems {
		s := e.eval(x)
		st, ok := s.T.Underlying().(*types.Slice)
		if !ok {
			panic(bindErr("modifies %s[*]: not a slice", m))
		}
		comp, sort := v.memComp(st.Elem())
		e.st.heapGet(v.d, comp, sort)
		add(comp, "(sl_base "+s.S+")", false)
		return
	}
	switch t := x.(type) {
	case *ast.SelectorExpr:
		// T.f (all objects) or x.f (one object)
		_, isId := t.X.(*ast.Ident)
		_, isQual := t.X.(*ast.SelectorExpr)
		if isId || isQual {
			if tt, ok := v.specTypeOf(e, t.X); ok {
				if st, ok := tt.Underlying().(*types.Struct); ok {
					for i := 0; i < st.NumFields(); i++ {
						if st.Field(i).Name() == t.Sel.Name {
							comp, sort := v.fieldComp(tt, st.Field(i))
							e.st.heapGet(v.d, comp, sort)
							add(comp, "", true)
							return
						}
					}
				}
				if gf, stt := v.ghostField(tt, t.Sel.Name); gf != nil {
					comp, sort, _ := v.ghostFieldComp(stt, gf)
					e.st.heapGet(v.d, comp, sort)
					add(comp, "", true)
					return
				}
				panic(bindErr("modifies %s: no such field", m))
			}
		}
		base := e.eval(t.X)
		obj, index, _ := types.LookupFieldOrMethod(base.T, true, e.pkgOrNil(), t.Sel.Name)
		if fv, ok := obj.(*types.Var); ok && fv.IsField() {
			if len(index) > 1 {
				base = v.walkFields(e, base, index[:len(index)-1], token.NoPos)
			}
			pt, ok := base.T.Underlying().(*types.Pointer)
			if !ok {
				panic(bindErr("modifies %s: base is not a pointer", m))
			}
			comp, sort := v.fieldComp(pt.Elem(), fv)
			e.st.heapGet(v.d, comp, sort)
			add(comp, base.S, false)
			return
		}
		if gf, stt := v.ghostField(base.T, t.Sel.Name); gf != nil {
			comp, sort, _ := v.ghostFieldComp(stt, gf)
			e.st.heapGet(v.d, comp, sort)
			add(comp, base.S, false)
			return
		}
		panic(bindErr("modifies %s: field not found", m))
	case *ast.StarExpr:
		p := e.eval(t.X)
		pt, ok := p.T.Underlying().(*types.Pointer)
		if !ok {
			panic(bindErr("modifies %s: not a pointer", m))
		}
		if st, ok := pt.Elem().Underlying().(*types.Struct); ok {
			for i := 0; i < st.NumFields(); i++ {
				comp, sort := v.fieldComp(pt.Elem(), st.Field(i))
				e.st.heapGet(v.d, comp, sort)
				add(comp, p.S, false)
			}
			return
		}
		comp, sort := v.cellComp(pt.Elem())
		e.st.heapGet(v.d, comp, sort)
		add(comp, p.S, false)
		return
	case *ast.Ident:
		// ghost variable: handled separately by callers
		return
	}
	panic(bindErr("modifies %s: unsupported form", m))
}

// ---------- loops ----------

func (v *V) loopSpec(fr *Frame, s ast.Stmt) (*LoopSpec, int) {
	if fr != v.top {
		// a loop of an inlined callee: only an unroll bound of the callee's own contract carries
		// over (it mentions no names); invariants do not
		if fr.fi == nil || fr.fi.body == nil || fr.fi.pkg == nil {
			return nil, -1
		}
		fs := v.prog.contracts.Funcs[fr.fi.pkg.path+"."+fr.fi.key]
		if fs == nil {
			return nil, -1
		}
		n, found := 0, -1
		ast.Inspect(fr.fi.body, func(x ast.Node) bool {
			switch x.(type) {
			case *ast.FuncLit:
				return false
			case *ast.ForStmt, *ast.RangeStmt:
				if x == ast.Node(s) {
					found = n
				}
				n++
			}
			return true
		})
		if found < 0 {
			return nil, -1
		}
		if ls := fs.Loops[found]; ls != nil && ls.Unroll > 0 && len(ls.Invariants) == 0 {
			return &LoopSpec{Unroll: ls.Unroll}, found
		}
		return nil, -1
	}
	ord, ok := v.loopOrd[s]
	if !ok {
		return nil, -1
	}
	return v.spec.Loops[ord], ord
}

type loopMods struct {
	vars  []*types.Var
	ghost []string
	heap  []string
	alloc bool
}

// dryMods executes body once without recording obligations and reports what it may modify.
func (v *V) dryMods(fr *Frame, head *State, run func(st *State) []Outcome) loopMods {
	v.dry++
	savedPaths := v.paths
	defer func() { v.dry--; v.paths = savedPaths }()
	probe := head.clone()
	savedUnknown := v.dryUnknown
	v.dryUnknown = false
	outs := run(probe)
	var m loopMods
	if v.dryUnknown {
		// an unmodelled call in the body: every heap component known so far may change
		for comp := range v.d.heapSorts {
			m.heap = append(m.heap, comp)
		}
		m.alloc = true
	}
	v.dryUnknown = savedUnknown || v.dryUnknown
	seenV := map[*types.Var]bool{}
	seenG := map[string]bool{}
	seenH := map[string]bool{}
	for _, o := range outs {
		for obj, val := range o.st.vars {
			h, ok := head.vars[obj]
			if ok && h.S != val.S {
				if vv, ok := obj.(*types.Var); ok && !seenV[vv] {
					seenV[vv] = true
					m.vars = append(m.vars, vv)
				}
			}
		}
		for g, val := range o.st.ghost {
			if h, ok := head.ghost[g]; ok && h.S != val.S && !seenG[g] {
				seenG[g] = true
				m.ghost = append(m.ghost, g)
			}
		}
		for comp, t := range o.st.heap {
			h, ok := head.heap[comp]
			if (!ok || h != t) && !seenH[comp] {
				if !ok && t == "H0_"+sanitize(comp) {
					continue
				}
				seenH[comp] = true
				m.heap = append(m.heap, comp)
			}
		}
		if o.st.alloc != head.alloc {
			m.alloc = true
		}
	}
	sort.Slice(m.vars, func(i, j int) bool { return m.vars[i].Pos() < m.vars[j].Pos() })
	sort.Strings(m.ghost)
	sort.Strings(m.heap)
	return m
}

func (v *V) havoc(st *State, m loopMods) {
	if m.alloc {
		na := v.d.fresh("alloc", "Int")
		st.define(fmt.Sprintf("(>= %s %s)", na, st.alloc))
		st.alloc = na
	}
	for _, comp := range m.heap {
		st.heap[comp] = v.d.fresh("hv_"+comp, v.d.heapSorts[comp])
		if c := v.d.closureFact(comp, st.heap[comp], st.alloc); c != "" {
			st.define(c)
		}
	}
	for _, obj := range m.vars {
		if st.boxed != nil && st.boxed[obj] {
			continue // the cell component is havocked instead
		}
		st.vars[obj] = v.freshVal(st, obj.Name(), obj.Type())
	}
	for _, g := range m.ghost {
		st.ghost[g] = v.freshVal(st, "ghost_"+g, st.ghost[g].T)
	}
}

func (v *V) loopScope(fr *Frame, s ast.Stmt, body *ast.BlockStmt) (*types.Scope, token.Pos) {
	if sc := fr.info.Scopes[body]; sc != nil {
		return sc, body.Lbrace + 1
	}
	if sc := fr.info.Scopes[s]; sc != nil {
		return sc, body.Lbrace + 1
	}
	return v.funcScope(v.fi)
}

func (v *V) checkInvs(fr *Frame, st *State, ls *LoopSpec, ord int, kind string, scope *types.Scope, pos token.Pos, extra map[string]Val) {
	for k, c := range ls.Invariants {
		e := v.specEnv(st, v.entry, fr, scope, pos)
		for n, val := range extra {
			e.bound[n] = val
		}
		e.proving = true
		goal := v.evalClause(e, c)
		name := fmt.Sprintf("%s/%s#%d.%d", v.fi.name(), kind, ord, k)
		v.addObl(st, name, kind, goal, token.NoPos, fmt.Sprintf("loop %d invariant %s", ord, c.Src), "unsat")
	}
}

func (v *V) assumeInvs(fr *Frame, st *State, ls *LoopSpec, scope *types.Scope, pos token.Pos, extra map[string]Val) {
	for _, c := range ls.Invariants {
		e := v.specEnv(st, v.entry, fr, scope, pos)
		for n, val := range extra {
			e.bound[n] = val
		}
		st.assume(v.evalClause(e, c))
	}
}

func (v *V) execFor(fr *Frame, s *ast.ForStmt, st *State) []Outcome {
	if s.Init != nil {
		outs := v.execStmt(fr, s.Init, st)
		if len(outs) != 1 || outs[0].kind != OutNormal {
			panic(unsupported("for-init with control flow"))
		}
		st = outs[0].st
	}
	ls, ord := v.loopSpec(fr, s)
	label := fr.labels[s]
	iter := func(head *State) (exits []*State, backs []*State, escapes []Outcome) {
		var ts, fs []*State
		if s.Cond != nil {
			ts, fs = v.execCond(fr, s.Cond, head)
		} else {
			ts = []*State{head}
		}
		exits = append(exits, fs...)
		for _, t := range v.tryMergeOrKeep(ts) {
			for _, o := range v.execBlock(fr, s.Body.List, t) {
				switch {
				case o.kind == OutNormal, o.kind == OutContinue && (o.label == "" || o.label == label):
					cur := o.st
					if s.Post != nil {
						po := v.execStmt(fr, s.Post, cur)
						cur = po[0].st
					}
					backs = append(backs, cur)
				case o.kind == OutBreak && (o.label == "" || o.label == label):
					exits = append(exits, o.st)
				default:
					escapes = append(escapes, o)
				}
			}
		}
		return
	}
	return v.runLoop(fr, s, st, ls, ord, s.Body, iter, nil)
}

// runLoop is shared by for and range loops. iter executes guard+body+post from a loop-head state.
func (v *V) runLoop(fr *Frame, s ast.Stmt, st *State, ls *LoopSpec, ord int, body *ast.BlockStmt,
	iter func(head *State) (exits, backs []*State, escapes []Outcome), extra func(st *State) map[string]Val) []Outcome {
	if ls == nil || (len(ls.Invariants) == 0 && ls.Unroll == 0) {
		if v.dry > 0 {
			// modification analysis only: an unspecified loop counts as "may modify everything"
			v.dryUnknown = true
			return []Outcome{{kind: OutNormal, st: st}}
		}
		if fr != v.top {
			panic(unsupported("loop inside inlined function %s needs a contract", fr.fi.name()))
		}
		panic(unsupported("loop %d in %s has no invariant (and no unroll bound)", ord, v.fi.name()))
	}
	var outs []Outcome
	if ls.Unroll > 0 {
		// bounded unrolling with unwinding assertion: complete if the assertion is discharged
		heads := []*State{st}
		for k := 0; k <= ls.Unroll; k++ {
			var next []*State
			for _, h := range heads {
				exits, backs, escapes := iter(h)
				for _, x := range exits {
					outs = append(outs, Outcome{kind: OutNormal, st: x})
				}
				outs = append(outs, escapes...)
				next = append(next, backs...)
			}
			heads = v.tryMergeOrKeep(next)
			if len(heads) == 0 {
				break
			}
			if k == ls.Unroll {
				for _, h := range heads {
					v.addObl(h, fmt.Sprintf("%s/unwind#%d", v.fi.name(), ord), "unwind", "false", s.Pos(), fmt.Sprintf("loop %d needs more than %d iterations", ord, ls.Unroll), "unsat")
				}
			}
		}
		return v.mergeNormal(outs)
	}
	scope, pos := v.loopScope(fr, s, body)
	var ex map[string]Val
	if extra != nil {
		ex = extra(st)
	}
	v.checkInvs(fr, st, ls, ord, "inv-init", scope, pos, ex)
	frameInv := func(b *State, kind string, comps []string, assume bool) {
		if v.spec.NoPanicOnly {
			return
		}
		for _, comp := range comps {
			g, ok := v.frameGoal(fr, b, comp)
			if !ok {
				continue
			}
			if assume {
				b.assume(g)
			} else {
				v.addObl(b, fmt.Sprintf("%s/%s#%d.frame.%s", v.fi.name(), kind, ord, comp), kind, g, token.NoPos, fmt.Sprintf("loop %d implicit frame invariant for %s", ord, comp), "unsat")
			}
		}
	}
	mods := v.dryMods(fr, st, func(p *State) []Outcome {
		exits, backs, escapes := iter(p)
		var os []Outcome
		for _, x := range append(exits, backs...) {
			os = append(os, Outcome{st: x})
		}
		return append(os, escapes...)
	})
	frameInv(st, "inv-init", mods.heap, false)
	head := st.clone()
	if ls.Isolate {
		// `loop N: isolate`: the invariant is meant to be self-contained; quantified facts written by
		// contracts earlier on the path (outer invariants, callee postconditions) are dropped from the
		// arbitrary-iteration state. Dropping hypotheses is sound; engine frame and closure facts stay.
		var pc []string
		for _, c := range head.pc {
			if (strings.Contains(c, "(forall ") || strings.Contains(c, "(exists ")) && !hoistable(c) {
				continue
			}
			pc = append(pc, c)
		}
		head.pc = pc
	}
	v.havoc(head, mods)
	if extra != nil {
		ex = extra(head)
	}
	v.assumeInvs(fr, head, ls, scope, pos, ex)
	frameInv(head, "", mods.heap, true)
	// vacuity guard: invariant satisfiable
	if g := v.addObl(head, fmt.Sprintf("%s/inv-sat#%d", v.fi.name(), ord), "inv-sat", "false", s.Pos(), fmt.Sprintf("loop %d invariant is satisfiable (vacuity guard)", ord), "sat"); g != nil {
		// if the path reaching the loop is itself infeasible the guard is moot (checked only when it fires)
		g.AltPC = append(append([]string(nil), st.pc...), st.guards...)
	}
	var m0 *Val
	headForDecr := head.clone()
	exits, backs, escapes := iter(head)
	if ls.Decreases != nil {
		e := v.specEnv(headForDecr, v.entry, fr, scope, pos)
		for n, val := range ex {
			e.bound[n] = val
		}
		t := e.eval(ls.Decreases.Expr)
		m0 = &t
	}
	for _, b := range backs {
		var exb map[string]Val
		if extra != nil {
			exb = v.loopExtraBack(b, ex)
		}
		v.checkInvs(fr, b, ls, ord, "inv-preserve", scope, pos, exb)
		frameInv(b, "inv-preserve", mods.heap, false)
		if m0 != nil {
			e := v.specEnv(b, v.entry, fr, scope, pos)
			for n, val := range exb {
				e.bound[n] = val
			}
			m1 := e.eval(ls.Decreases.Expr)
			a0 := e.adapt(*m0, tInt)
			a1 := e.adapt(m1, a0.T)
			zero := e.zero(a0.T)
			goal := and(v.compare(e, token.LSS, a1, a0), v.compare(e, token.GEQ, a0, zero))
			v.addObl(b, fmt.Sprintf("%s/decreases#%d", v.fi.name(), ord), "decreases", goal, token.NoPos, "loop measure decreases and is bounded below: "+ls.Decreases.Src, "unsat")
		}
	}
	for _, x := range exits {
		outs = append(outs, Outcome{kind: OutNormal, st: x})
	}
	outs = append(outs, escapes...)
	return v.mergeNormal(outs)
}

func (v *V) loopExtraBack(b *State, ex map[string]Val) map[string]Val {
	out := map[string]Val{}
	for k, val := range ex {
		out[k] = val
	}
	if it, ok := b.ghost["$iter"]; ok {
		out["iter"] = it
	}
	return out
}

func (v *V) execRange(fr *Frame, s *ast.RangeStmt, st *State) []Outcome {
	e := v.env(st, fr)
	ls, ord := v.loopSpec(fr, s)
	label := fr.labels[s]
	xt := fr.info.TypeOf(s.X)
	var n string       // number of iterations
	var elemAt func(e *Env, i string) Val
	var keyT types.Type = tInt
	switch u := xt.Underlying().(type) {
	case *types.Slice:
		x := v.nameVal(e, e.eval(s.X), "rng")
		n = "(sl_len " + x.S + ")"
		elemAt = func(e *Env, i string) Val {
			r := v.sliceElem(e, x, i)
			r = v.nameVal(e, r, "rv")
			for _, a := range v.typeInv(e.st, r) {
				e.st.assume(a)
			}
			return r
		}
	case *types.Array:
		x := e.eval(s.X)
		n = v.d.idxLit(u.Len())
		elemAt = func(e *Env, i string) Val {
			return Val{T: u.Elem(), S: fmt.Sprintf("(select %s %s)", x.S, i)}
		}
	case *types.Basic:
		if u.Info()&types.IsInteger != 0 {
			x := e.adapt(e.eval(s.X), tInt)
			n = v.toIdx(e, x)
			keyT = x.T
		} else {
			panic(unsupported("range over %s", xt))
		}
	case *types.Map:
		return v.execRangeMap(fr, s, st, u)
	default:
		panic(unsupported("range over %s", xt))
	}
	var keyObj, valObj *types.Var
	getObj := func(x ast.Expr) *types.Var {
		id, ok := x.(*ast.Ident)
		if !ok || id.Name == "_" {
			return nil
		}
		if s.Tok == token.DEFINE {
			o, _ := fr.info.Defs[id].(*types.Var)
			return o
		}
		o, _ := fr.info.Uses[id].(*types.Var)
		return o
	}
	if s.Key != nil {
		keyObj = getObj(s.Key)
		if _, ok := s.Key.(*ast.Ident); !ok {
			panic(unsupported("range key is not an identifier"))
		}
	}
	if s.Value != nil {
		valObj = getObj(s.Value)
	}
	st.ghost["$iter"] = Val{T: tInt, S: v.d.idxLit(0)}
	iter := func(head *State) (exits, backs []*State, escapes []Outcome) {
		i := head.ghost["$iter"].S
		f := head.clone()
		head.assume(v.ilt(i, n))
		f.assume(not(v.ilt(i, n)))
		exits = append(exits, f)
		he := v.env(head, fr)
		if keyObj != nil {
			kv := Val{T: keyT, S: i}
			if v.d.mode == ModeBV {
				kv = v.convert(he, Val{T: tInt, S: i}, keyObj.Type(), s.Pos())
			}
			kv.T = keyObj.Type()
			v.setVar(he, keyObj, kv)
		}
		if valObj != nil && elemAt != nil {
			v.setVar(he, valObj, elemAt(he, i))
		}
		for _, o := range v.execBlock(fr, s.Body.List, head) {
			switch {
			case o.kind == OutNormal, o.kind == OutContinue && (o.label == "" || o.label == label):
				cur := o.st
				ci := cur.ghost["$iter"].S
				cur.ghost["$iter"] = Val{T: tInt, S: v.iadd(ci, v.d.idxLit(1))}
				backs = append(backs, cur)
			case o.kind == OutBreak && (o.label == "" || o.label == label):
				exits = append(exits, o.st)
			default:
				escapes = append(escapes, o)
			}
		}
		return
	}
	extra := func(st *State) map[string]Val {
		// after havoc, $iter is a fresh value; constrain 0 <= iter <= n
		it := st.ghost["$iter"]
		st.assume(and(v.ile(v.d.idxLit(0), it.S), v.ile(it.S, n)))
		return map[string]Val{"iter": it}
	}
	if ls != nil && ls.Unroll == 0 {
		// make sure $iter is treated as modified
	}
	outs := v.runLoop(fr, s, st, ls, ord, s.Body, iter, extra)
	for _, o := range outs {
		delete(o.st.ghost, "$iter")
	}
	return outs
}


// ---------- contract application at call sites ----------

func (v *V) atStmts(e *Env, call *ast.CallExpr, after bool, bind map[string]Val, pre *State) {
	if v.dry > 0 && false {
		return
	}
	name, ok := v.callOrd[call]
	if !ok {
		return
	}
	if after && v.top != nil && contains(v.spec.CutAfter, name) {
		defer func() { e.st.dead = true }()
		v.cutUsed[name] = true
	}
	for _, a := range v.spec.At {
		if fmt.Sprintf("%s#%d", a.Callee, a.Ord) != name || a.After != after {
			continue
		}
		v.atUsed[fmt.Sprintf("%s#%d/%v", a.Callee, a.Ord, a.After)] = true
		scope, spos := v.funcScope(v.fi)
		se := v.specEnv(e.st, v.entry, v.top, scope, spos)
		if sc := v.top.info.Scopes[v.enclosingBlock(call)]; sc != nil {
			se.scope, se.pos = sc, call.Pos()
		} else if call.Pos() > v.fi.body.Lbrace && call.Pos() < v.fi.body.Rbrace {
			// directly in the function body: its scope, as of the call's position
			se.pos = call.Pos()
		}
		for k, val := range bind {
			se.bound[k] = val
		}
		if pre != nil {
			se.bound["$pre"] = Val{}
		}
		switch a.Kind {
		case "assert":
			se.proving = true
			goal := v.evalClause(se, a.C)
			if v.dry == 0 {
				nm := fmt.Sprintf("%s/call-site#%s", v.fi.name(), name)
				if after {
					nm += ".after"
				}
				v.addObl(e.st, nm, "call-site", goal, call.Pos(), "at "+name+": "+a.C.Src, "unsat")
			}
			// once proved (it is an obligation of its own), the asserted fact may be used
			se2 := *se
			se2.proving = false
			e.st.assume(v.evalClause(&se2, a.C))
		case "ghost":
			val := se.eval(a.C.Expr)
			v.assignGhost(se, a.Target, val)
		}
	}
}

// assignGhost assigns to a ghost variable (by name) or to a ghost field x.f.
func (v *V) assignGhost(se *Env, target string, val Val) {
	st := se.st
	if i := strings.LastIndex(target, "."); i > 0 {
		bx, err := parseSpecExpr(target[:i])
		if err != nil {
			panic(bindErr("ghost assignment target %s: %v", target, err))
		}
		base := se.eval(bx)
		gf, stt := v.ghostField(base.T, target[i+1:])
		if gf == nil {
			panic(bindErr("ghost assignment target %s: no such ghost field", target))
		}
		comp, sort, gt := v.ghostFieldComp(stt, gf)
		nv := v.coerce(se, val, gt)
		if _, isInt := v.d.intComps[comp]; isInt && v.dry == 0 {
			inv := v.typeInvNoAlloc(Val{T: gt, S: nv.S})
			// ghost fields keep within their declared type's range (the range is assumed of fresh heap versions)
			v.addObl(st, fmt.Sprintf("%s/ghost-range#%s", v.fi.name(), target), "ghost-range", and(inv...), token.NoPos, "value assigned to ghost field "+target+" is within its type's range", "unsat")
		}
		st.heapSet(v.d, comp, sort, fmt.Sprintf("(store %s %s %s)", st.heapGet(v.d, comp, sort), base.S, nv.S))
		return
	}
	cur, ok := st.ghost[target]
	if !ok {
		panic(bindErr("ghost variable %s is not declared", target))
	}
	nv := v.coerce(se, val, cur.T)
	c := v.d.fresh("ghost_"+target, v.d.sortOf(cur.T))
	st.define(eq(c, nv.S))
	st.ghost[target] = Val{T: cur.T, S: c}
}

func (v *V) enclosingBlock(n ast.Node) ast.Node {
	// innermost block statement of the top function containing n
	var best ast.Node
	ast.Inspect(v.fi.body, func(x ast.Node) bool {
		if x == nil {
			return false
		}
		if x.Pos() <= n.Pos() && n.End() <= x.End() {
			switch x.(type) {
			case *ast.BlockStmt, *ast.CaseClause:
				best = x
			}
			return true
		}
		return false
	})
	return best
}

func (v *V) applyContract(e *Env, fs *FuncSpec, fn *types.Func, recv *Val, args []Val, call *ast.CallExpr) []Val {
	sig := fn.Type().(*types.Signature)
	calleeMode := fs.Mode
	crossMode := false
	if calleeMode != "" && calleeMode != "any" && calleeMode != v.d.mode.String() {
		// the callee's contract is stated in the other integer mode: here the call is opaque
		// (results arbitrary, frame from its modifies clause); its precondition is NOT checked here.
		crossMode = true
		v.abstraction(fmt.Sprintf("call to %s (contract in mode %s) from %s (mode %s) is opaque: results unconstrained, precondition not checked at this call site", fn.FullName(), calleeMode, v.fi.name(), v.d.mode))
	}
	// names: receiver + params (optionally renamed in the key: "heap.Pop(h)")
	bound := map[string]Val{}
	names := contractParamNames(fs, fn, v.prog)
	k := 0
	if recv != nil {
		if names[0] != "" {
			bound[names[0]] = *recv
		}
		k = 1
	} else if sig.Recv() != nil {
		k = 1
	}
	for i, a := range args {
		if k+i < len(names) && names[k+i] != "" && names[k+i] != "_" {
			bound[names[k+i]] = a
		}
	}
	cpkg, cscope, cpos := v.calleeScope(fs, fn)
	mkEnv := func(st, old *State) *Env {
		ce := &Env{v: v, st: st, spec: true, old: old, bound: map[string]Val{}, pkg: cpkg, scope: cscope, pos: cpos}
		for n, val := range bound {
			ce.bound[n] = val
		}
		return ce
	}
	argBind := argBinding(recv, args)
	v.atStmts(e, call, false, argBind, nil)
	if nm, ok := v.callOrd[call]; ok && v.top != nil && v.dry == 0 && contains(v.spec.CutAfter, nm) {
		// `cutafter call NAME#k`: only the prefix up to this call is under contract. The callee's
		// precondition is still an obligation; its postcondition is not needed (the path ends here).
		for i, c := range fs.Requires {
			ce := mkEnv(e.st, nil)
			ce.proving = true
			goal := v.evalClause(ce, c)
			v.addObl(e.st, fmt.Sprintf("%s/call-pre#%s.%d", v.fi.name(), nm, i), "call-pre", goal, call.Pos(), "precondition of "+fs.Key+": "+c.Src, "unsat")
		}
		v.cutUsed[nm] = true
		e.st.dead = true
		var zs []Val
		if sig, ok := fn.Type().(*types.Signature); ok {
			for i := 0; i < sig.Results().Len(); i++ {
				zs = append(zs, e.zero(sig.Results().At(i).Type()))
			}
		}
		return zs
	}
	// ghost parameters of the callee: universally quantified in its ensures
	ghostClauses := func(cs []Clause) (plain, ghosty []Clause) {
		for _, c := range cs {
			uses := false
			for _, g := range fs.Ghosts {
				if mentions(c.Expr, g.Name) {
					uses = true
				}
			}
			if uses {
				ghosty = append(ghosty, c)
			} else {
				plain = append(plain, c)
			}
		}
		return
	}
	reqPlain, reqGhost := ghostClauses(fs.Requires)
	ensPlain, ensGhost := ghostClauses(fs.Ensures)
	if crossMode {
		reqPlain, reqGhost, ensPlain, ensGhost = nil, nil, nil, nil
	}
	// 1. requires
	for i, c := range reqPlain {
		ce := mkEnv(e.st, nil)
		goal := v.evalClause(ce, c)
		if v.dry == 0 && !e.spec {
			nm := fmt.Sprintf("%s/call-pre#%s.%d", v.fi.name(), v.callName(call), i)
			v.addObl(e.st, nm, "call-pre", goal, call.Pos(), fmt.Sprintf("precondition of %s: %s", fs.Key, c.Src), "unsat")
		}
	}
	// 2. pre-state, havoc
	pre := e.st.clone()
	if len(e.st.guards) > 0 && (len(fs.Modifies) > 0) {
		panic(unsupported("call with side effects inside a short-circuit operand"))
	}
	if !fs.Pure {
		mods := v.modifiesSet(mkEnv(pre.clone(), nil), fs, nil)
		for _, comp := range sortedKeys(mods) {
			refs := mods[comp]
			cur := e.st.heapGet(v.d, comp, v.d.heapSorts[comp])
			nh := v.d.fresh("hc_"+comp, v.d.heapSorts[comp])
			if refs != nil {
				// only the listed objects (and objects allocated by the callee) may change
				var except []string
				for _, r := range refs {
					except = append(except, not(eq("qo", r)))
				}
				v.d.usesQuant = true
				e.st.define(fmt.Sprintf("(forall ((qo Int)) (! (=> (and (> qo 0) (<= qo %s) %s) (= (select %s qo) (select %s qo))) :pattern ((select %s qo))))", pre.alloc, and(except...), nh, cur, nh))
			}
			e.st.heap[comp] = nh
		}
		// ghost variables named in modifies
		for _, m := range fs.Modifies {
			if gv, ok := e.st.ghost[m]; ok {
				e.st.ghost[m] = v.freshVal(e.st, "ghost_"+m, gv.T)
			}
		}
		// the callee may allocate
		na := v.d.fresh("alloc", "Int")
		e.st.define(fmt.Sprintf("(>= %s %s)", na, e.st.alloc))
		e.st.alloc = na
		for _, comp := range sortedKeys(mods) {
			if c := v.d.closureFact(comp, e.st.heap[comp], na); c != "" {
				e.st.define(c)
			}
		}
	}
	// 3. results
	var rets []Val
	if fs.Pure {
		// deterministic: result is an uninterpreted function of receiver and arguments
		sorts, terms := []string{}, []string{}
		addArg := func(a Val) {
			if sl, ok := a.T.Underlying().(*types.Slice); ok {
				// the result depends on the slice's contents, not on its header (buffers are reused)
				comp, sort := v.memComp(sl.Elem())
				base, off, ln, _ := v.sliceParts(a.S)
				row := e.st.heapRead(v.d, comp, sort, base)
				sorts = append(sorts, fmt.Sprintf("(Array %s %s)", v.d.idxSort(), v.d.sortOf(sl.Elem())), v.d.idxSort(), v.d.idxSort())
				terms = append(terms, row, off, ln)
				return
			}
			sorts, terms = append(sorts, v.d.sortOf(a.T)), append(terms, a.S)
		}
		if recv != nil {
			addArg(*recv)
		}
		for _, a := range args {
			addArg(a)
		}
		if fs.PureHeap {
			// the receiver/arguments are mutable objects: results are only comparable within one heap version
			sorts, terms = append(sorts, "Int"), append(terms, fmt.Sprintf("%d", v.heapVersion(e.st)))
		}
		for i := 0; i < sig.Results().Len(); i++ {
			rt := sig.Results().At(i).Type()
			name := fmt.Sprintf("pure%d_%s", i, sanitize(fn.FullName()))
			v.d.declareFun(name, sorts, v.d.sortOf(rt))
			t := name
			if len(terms) > 0 {
				t = fmt.Sprintf("(%s %s)", name, strings.Join(terms, " "))
			}
			r := Val{T: rt, S: t}
			if e.inQuant == 0 {
				r = v.nameVal(e, r, "r")
				for _, a := range v.typeInv(e.st, r) {
					e.st.assume(a)
				}
			}
			rets = append(rets, r)
		}
	} else {
		if e.inQuant > 0 {
			panic(bindErr("call to non-pure %s inside a quantifier", fs.Key))
		}
		for i := 0; i < sig.Results().Len(); i++ {
			rets = append(rets, v.freshVal(e.st, "ret_"+fn.Name(), sig.Results().At(i).Type()))
		}
	}
	// 4. ensures
	bindRets := func(ce *Env) {
		ce.retVals = rets
		for i := 0; i < sig.Results().Len(); i++ {
			if n := sig.Results().At(i).Name(); n != "" && n != "_" {
				ce.bound[n] = rets[i]
			}
		}
	}
	if e.inQuant == 0 {
		for _, c := range ensPlain {
			ce := mkEnv(e.st, pre)
			bindRets(ce)
			e.st.assume(v.evalClause(ce, c))
		}
		if len(ensGhost) > 0 {
			// forall ghosts: requires_ghost => ensures_ghost
			ce := mkEnv(e.st, pre)
			bindRets(ce)
			ce.inQuant++
			var binders []string
			var invs []string
			for _, g := range fs.Ghosts {
				gt := v.prog.resolveType(g.Type, fs.PkgPath)
				qn := fmt.Sprintf("%s_q%d", sanitize(g.Name), v.nextQ())
				gv := Val{T: gt, S: qn}
				ce.bound[g.Name] = gv
				binders = append(binders, fmt.Sprintf("(%s %s)", qn, v.d.sortOf(gt)))
				invs = append(invs, v.typeInvNoAlloc(gv)...)
			}
			var ante, cons []string
			ante = append(ante, invs...)
			for _, c := range reqGhost {
				pe := *ce
				pe.st, pe.old = pre, nil
				pe2 := &pe
				ante = append(ante, v.evalClause(pe2, c))
			}
			for _, c := range ensGhost {
				cons = append(cons, v.evalClause(ce, c))
			}
			v.d.usesQuant = true
			e.st.assume(fmt.Sprintf("(forall (%s) (=> %s %s))", strings.Join(binders, " "), and(ante...), and(cons...)))
		}
	}
	v.usedContracts[fs.Kind+" "+fs.PkgPath+"."+fs.Key] = fs
	bindAfter := map[string]Val{}
	for k, val := range argBind {
		bindAfter[k] = val
	}
	for i, r := range rets {
		bindAfter[fmt.Sprintf("result%d", i)] = r
		if i == 0 {
			bindAfter["result"] = r
		}
	}
	v.atStmts(e, call, true, bindAfter, pre)
	return rets
}

func (v *V) callName(call *ast.CallExpr) string {
	if n, ok := v.callOrd[call]; ok {
		return n
	}
	return types.ExprString(call.Fun) + "@" + v.prog.pos(call.Pos())
}

func mentions(x ast.Expr, name string) bool {
	found := false
	ast.Inspect(x, func(n ast.Node) bool {
		if id, ok := n.(*ast.Ident); ok && id.Name == name {
			found = true
		}
		return !found
	})
	return found
}

// contractParamNames: receiver name first (if method), then parameters.
func contractParamNames(fs *FuncSpec, fn *types.Func, prog *Prog) []string {
	sig := fn.Type().(*types.Signature)
	var names []string
	// explicit renaming in the key: "Type.Method(recv, a, b)"
	if len(fs.Names) > 0 {
		return fs.Names
	}
	if sig.Recv() != nil {
		rn := sig.Recv().Name()
		if fi := prog.funcInfoFor(fn); fi != nil && fi.decl != nil && fi.decl.Recv != nil && len(fi.decl.Recv.List[0].Names) > 0 {
			rn = fi.decl.Recv.List[0].Names[0].Name
		}
		names = append(names, rn)
	}
	for i := 0; i < sig.Params().Len(); i++ {
		names = append(names, sig.Params().At(i).Name())
	}
	return names
}

func (v *V) calleeScope(fs *FuncSpec, fn *types.Func) (*types.Package, *types.Scope, token.Pos) {
	if pi := v.prog.pkgs[fs.PkgPath]; pi != nil {
		return pi.types, nil, token.NoPos
	}
	return v.pkg.types, nil, token.NoPos
}

// ---------- inlining ----------

func (v *V) inlineCall(e *Env, fi *FuncInfo, recv *Val, args []Val, call *ast.CallExpr) []Val {
	for _, f := range v.inlineStack {
		if f == fi {
			panic(unsupported("recursive call to %s needs a contract", fi.name()))
		}
	}
	if len(v.inlineStack) >= 4 {
		panic(unsupported("inlining depth exceeded at %s (give it a contract)", fi.name()))
	}
	if len(e.st.guards) > 0 {
		panic(unsupported("inlined call to %s inside a short-circuit operand", fi.name()))
	}
	if e.spec {
		panic(bindErr("call to %s in a spec expression: function has no contract (declare it pure or use a spec function)", fi.name()))
	}
	v.atStmts(e, call, false, argBinding(recv, args), nil)
	v.inlined[fi.pkg.path+"."+fi.name()] = true
	v.inlineStack = append(v.inlineStack, fi)
	defer func() { v.inlineStack = v.inlineStack[:len(v.inlineStack)-1] }()
	fr := &Frame{fi: fi, info: fi.pkg.info, pkg: fi.pkg.types, inlined: true, labels: map[ast.Stmt]string{}, deferBase: len(e.st.defers)}
	st := e.st
	ce := &Env{v: v, st: st, info: fi.pkg.info}
	if recv != nil {
		if rv := v.recvVar(fi); rv != nil {
			st.vars[rv] = v.nameVal(ce, Val{T: rv.Type(), S: recv.S}, rv.Name())
		}
	}
	for i, a := range args {
		if pv := v.paramVar(fi, i); pv != nil {
			val := v.nameVal(ce, Val{T: pv.Type(), S: a.S}, pv.Name())
			st.vars[pv] = val
		}
	}
	fr.results = v.resultVars(fi)
	for _, r := range fr.results {
		st.vars[r] = ce.zero(r.Type())
	}
	outs := v.execBlock(fr, fi.body.List, st)
	var finals []*State
	for _, o := range outs {
		switch o.kind {
		case OutReturn:
			finals = append(finals, o.st)
		case OutNormal:
			ro := v.finishReturn(fr, o.st, nil, fi.body.Rbrace)
			finals = append(finals, ro.st)
		default:
			panic(unsupported("break/continue escaping inlined function"))
		}
	}
	var live []*State
	for _, f := range finals {
		if !f.dead {
			live = append(live, f)
		}
	}
	if len(live) == 0 {
		st.dead = true
		st.assume("false")
		var rets []Val
		for _, r := range fr.results {
			rets = append(rets, ce.zero(r.Type()))
		}
		return rets
	}
	m := mergeStates(v.d, live)
	if m != st {
		*st = *m
	}
	var rets []Val
	for _, r := range fr.results {
		rets = append(rets, st.vars[r])
	}
	ab := argBinding(recv, args)
	for i, r := range rets {
		ab[fmt.Sprintf("result%d", i)] = r
		if i == 0 {
			ab["result"] = r
		}
	}
	v.atStmts(e, call, true, ab, nil)
	return rets
}

// argBinding: names available in at-call statements: recv, arg0, arg1, ...
func argBinding(recv *Val, args []Val) map[string]Val {
	m := map[string]Val{}
	if recv != nil {
		m["recv"] = *recv
	}
	for i, a := range args {
		m[fmt.Sprintf("arg%d", i)] = a
	}
	return m
}

func (v *V) inlineLit(e *Env, lit *ast.FuncLit, call *ast.CallExpr) []Val {
	panic(unsupported("immediately invoked function literal"))
}

// heapVersion identifies the heap of a state: two states with the same version number have
// identical heap components (components still at their initial value are left out, so that merely
// reading a component does not change the version).
func (v *V) heapVersion(st *State) int {
	var ks []string
	for comp, t := range st.heap {
		if t == "H0_"+sanitize(comp) {
			continue
		}
		ks = append(ks, comp+"="+t)
	}
	sort.Strings(ks)
	key := strings.Join(ks, ";")
	if v.heapVers == nil {
		v.heapVers = map[string]int{}
	}
	if n, ok := v.heapVers[key]; ok {
		return n
	}
	n := len(v.heapVers)
	v.heapVers[key] = n
	return n
}
