package main

// Parsing of //@ contract comments from zz_verif_contracts*.go files.

import (
	"fmt"
	"go/ast"
	"go/parser"
	"go/printer"
	"go/token"
	"strconv"
	"strings"
)

type Clause struct {
	Src  string
	Expr ast.Expr
	Line string // file:line of the contract line
}

type LoopSpec struct {
	Invariants []Clause
	Decreases  *Clause
	Unroll     int // >0: bounded unrolling (complete if the unwinding assertion holds)
	Isolate    bool // the arbitrary-iteration state keeps no contract-level quantified facts from before the loop
}

type AtStmt struct {
	Callee string // name as written at the call site (e.g. heap.Pop, c.compare, newRange)
	Ord    int
	After  bool
	Kind   string // assert | ghost | assume-is-forbidden
	Target string // for ghost assignments
	C      Clause
}

type Param struct {
	Name string
	Type ast.Expr
}

type FuncSpec struct {
	Key      string // e.g. "Float64ToInt64", "PrefixCoded.Shift", "F$lit0"
	Kind     string // func | assume | iface
	PkgPath  string // package that holds the contract (and, for func, the code)
	Props    []string
	Mode     string // bv | int | any | ""
	Ghosts   []Param
	Requires []Clause
	Ensures  []Clause
	Modifies []string
	Decr     *Clause
	Loops    map[int]*LoopSpec
	At       []AtStmt
	Pure     bool
	Trusted  string // non-empty: reason the contract is assumed rather than proved
	Bounded  string // non-empty: description of bound (function is only bounded-checked)
	Line     string
	Inline   bool
	NoPanicOnly bool
	GhostLocals []GhostLocal
	CutAfter    []string // "NAME#k": paths end after this call (only the prefix is under contract)
	Names       []string // explicit receiver/parameter names given in the key: "T.M(recv, a, b)"
	Implements  string   // key of the interface-method contract this function must satisfy
	Reveal      []string // opaque spec functions whose definition this proof needs
	Impure      []string // function values (as written at the call) whose calls may have any side effect
	ImpureMods  map[string][]string // optional: the locations such a call may modify (assumed)
	AtReturn    []AtStmt // ghost assignments executed at every return
	AtEntry     []AtStmt // ghost assignments executed at entry
	PureHeap    bool     // pure, but the result depends on the (mutable) state of the objects passed: only comparable within one heap version
	Prune       bool     // drop branches whose path condition is unsatisfiable (they are not translated)
	NoMerge     bool     // keep the paths of this function apart at joins (no merged states)
	AbstractFP  bool     // float64 + - * / as uninterpreted functions (formula identity only)
	Locks       bool     // sync.Mutex / RWMutex fields modelled as ghost state of the enclosing object
}

// splitKeyNames splits "Type.Method(recv, a, b)" into the key and the explicit names.
func splitKeyNames(s string) (string, []string) {
	i := strings.Index(s, "(")
	if i < 0 || !strings.HasSuffix(s, ")") {
		return strings.TrimSpace(s), nil
	}
	var names []string
	for _, n := range strings.Split(s[i+1:len(s)-1], ",") {
		names = append(names, strings.TrimSpace(n))
	}
	return strings.TrimSpace(s[:i]), names
}

// renameClause returns the clause with identifiers renamed (field selectors are not touched).
func renameClause(c Clause, alias map[string]string) Clause {
	if len(alias) == 0 {
		return c
	}
	e, err := parseSpecExpr(c.Src)
	if err != nil {
		return c
	}
	skip := map[*ast.Ident]bool{}
	ast.Inspect(e, func(n ast.Node) bool {
		switch x := n.(type) {
		case *ast.SelectorExpr:
			skip[x.Sel] = true
		case *ast.Ident:
			if !skip[x] {
				if to, ok := alias[x.Name]; ok {
					x.Name = to
				}
			}
		}
		return true
	})
	var sb strings.Builder
	printer.Fprint(&sb, token.NewFileSet(), e)
	return Clause{Src: sb.String(), Expr: e, Line: c.Line}
}

type GhostLocal struct {
	Name string
	Type ast.Expr
	Init Clause
}

type SpecFun struct {
	Name   string
	Params []Param
	Ret    ast.Expr // nil for bool
	Body   ast.Expr // nil for uninterpreted
	Src    string
	PkgPath string
	Line   string
	Opaque bool // applied as an uninterpreted function unless the function under proof reveals it
}

type Axiom struct {
	Name  string
	Mode  string
	C     Clause
	PkgPath string
}

type GhostField struct {
	Type  string // struct type name (package-local)
	Name  string
	GType ast.Expr
	PkgPath string
}

type Contracts struct {
	Funcs       map[string]*FuncSpec // key: pkgpath + "." + Key
	Specs       map[string]*SpecFun  // by name (global namespace)
	Axioms      []*Axiom
	GhostFields map[string]*GhostField // "pkgpath.Type.name"
	GhostVars   map[string]Param
	ExtAmbiguous map[string]bool // "ext.<key>" assumed by more than one package
	Order       []string
	Errors      []string
}

func newContracts() *Contracts {
	return &Contracts{Funcs: map[string]*FuncSpec{}, Specs: map[string]*SpecFun{}, GhostFields: map[string]*GhostField{}, GhostVars: map[string]Param{}}
}

func parseSpecExpr(src string) (ast.Expr, error) {
	e, err := parser.ParseExpr(src)
	if err != nil {
		return nil, fmt.Errorf("cannot parse spec expression %q: %v", src, err)
	}
	return e, nil
}

// contractLines extracts the //@ lines (joined across trailing backslashes).
func contractLines(fset *token.FileSet, f *ast.File) (lines []string, locs []string) {
	var cur string
	var curLoc string
	for _, cg := range f.Comments {
		for _, c := range cg.List {
			if !strings.HasPrefix(c.Text, "//@") {
				continue
			}
			t := strings.TrimSpace(c.Text[3:])
			p := fset.Position(c.Pos())
			loc := fmt.Sprintf("%s:%d", p.Filename, p.Line)
			if cur != "" {
				t = cur + " " + t
				loc = curLoc
				cur = ""
			}
			if strings.HasSuffix(t, "\\") {
				cur = strings.TrimSpace(strings.TrimSuffix(t, "\\"))
				curLoc = loc
				continue
			}
			if t == "" {
				continue
			}
			lines = append(lines, t)
			locs = append(locs, loc)
		}
	}
	return
}

func splitWord(s string) (string, string) {
	s = strings.TrimSpace(s)
	i := strings.IndexAny(s, " \t")
	if i < 0 {
		return s, ""
	}
	return s[:i], strings.TrimSpace(s[i+1:])
}

func parseParams(s string) ([]Param, error) {
	// "a int64, b []byte" ; parse by wrapping into a func type
	e, err := parser.ParseExpr("func(" + s + ")")
	if err != nil {
		return nil, err
	}
	ft := e.(*ast.FuncType)
	var ps []Param
	for _, f := range ft.Params.List {
		if len(f.Names) == 0 {
			return nil, fmt.Errorf("parameter needs a name in %q", s)
		}
		for _, n := range f.Names {
			ps = append(ps, Param{n.Name, f.Type})
		}
	}
	return ps, nil
}

func (cs *Contracts) errf(loc, format string, a ...interface{}) {
	cs.Errors = append(cs.Errors, loc+": "+fmt.Sprintf(format, a...))
}

func (cs *Contracts) parseFile(fset *token.FileSet, f *ast.File, pkgPath string) {
	lines, locs := contractLines(fset, f)
	var cur *FuncSpec
	mkClause := func(src, loc string) (Clause, bool) {
		e, err := parseSpecExpr(src)
		if err != nil {
			cs.errf(loc, "%v", err)
			return Clause{}, false
		}
		return Clause{Src: src, Expr: e, Line: loc}, true
	}
	for i, ln := range lines {
		loc := locs[i]
		kw, rest := splitWord(ln)
		switch kw {
		case "func", "iface":
			key, names := splitKeyNames(rest)
			cur = &FuncSpec{Key: key, Names: names, Kind: kw, PkgPath: pkgPath, Loops: map[int]*LoopSpec{}, Line: loc}
			k := pkgPath + "." + key
			if _, dup := cs.Funcs[k]; dup {
				cs.errf(loc, "duplicate contract for %s", k)
			}
			cs.Funcs[k] = cur
			cs.Order = append(cs.Order, k)
		case "assume":
			w, r2 := splitWord(rest)
			if w != "func" {
				cs.errf(loc, "expected 'assume func <qualified name>'")
				cur = nil
				continue
			}
			akey, anames := splitKeyNames(r2)
			cur = &FuncSpec{Key: akey, Names: anames, Kind: "assume", PkgPath: pkgPath, Loops: map[int]*LoopSpec{}, Line: loc, Trusted: "external function (assumed contract)"}
			// registered for the declaring package, and globally if it is the first statement
			ks := "ext@" + pkgPath + "." + akey
			if _, dup := cs.Funcs[ks]; dup {
				cs.errf(loc, "duplicate assumed contract for %s in %s", akey, pkgPath)
			}
			cs.Funcs[ks] = cur
			cs.Order = append(cs.Order, ks)
			k := "ext." + akey
			if _, dup := cs.Funcs[k]; !dup {
				cs.Funcs[k] = cur
			} else {
				// assumed in several packages: the global entry is ambiguous and never used
				if cs.ExtAmbiguous == nil {
					cs.ExtAmbiguous = map[string]bool{}
				}
				cs.ExtAmbiguous[k] = true
			}
		case "props":
			if cur != nil {
				cur.Props = append(cur.Props, strings.Fields(strings.ReplaceAll(rest, ",", " "))...)
			}
		case "mode":
			if cur != nil {
				cur.Mode = rest
			}
		case "pure":
			if cur != nil {
				cur.Pure = true
				if rest == "heap" {
					cur.PureHeap = true
				}
			}
		case "inline":
			if cur != nil {
				cur.Inline = true
			}
		case "implements":
			if cur != nil {
				cur.Implements = rest
			}
		case "prune":
			if cur != nil {
				cur.Prune = true
			}
		case "nomerge":
			if cur != nil {
				cur.NoMerge = true
			}
		case "locks":
			if cur != nil {
				cur.Locks = true
			}
		case "floats":
			if cur != nil && rest == "abstract" {
				cur.AbstractFP = true
			}
		case "impure":
			// impure NAME: calls through the function value written NAME have arbitrary side effects
			// impure NAME: m1, m2   restricts the effect to the listed locations (modifies syntax)
			if cur != nil {
				if j := strings.Index(rest, ":"); j >= 0 {
					name := strings.TrimSpace(rest[:j])
					cur.Impure = append(cur.Impure, name)
					if cur.ImpureMods == nil {
						cur.ImpureMods = map[string][]string{}
					}
					for _, m := range strings.Split(rest[j+1:], ",") {
						if m = strings.TrimSpace(m); m != "" {
							cur.ImpureMods[name] = append(cur.ImpureMods[name], m)
						}
					}
				} else {
					cur.Impure = append(cur.Impure, strings.Fields(strings.ReplaceAll(rest, ",", " "))...)
				}
			}
		case "reveal":
			if cur != nil {
				cur.Reveal = append(cur.Reveal, strings.Fields(strings.ReplaceAll(rest, ",", " "))...)
			}
		case "trusted":
			if cur != nil {
				cur.Trusted = rest
				if rest == "" {
					cur.Trusted = "trusted"
				}
			}
		case "bounded":
			if cur != nil {
				cur.Bounded = rest
			}
		case "ghost":
			if cur == nil {
				continue
			}
			ps, err := parseParams(rest)
			if err != nil {
				cs.errf(loc, "bad ghost parameter %q: %v", rest, err)
				continue
			}
			cur.Ghosts = append(cur.Ghosts, ps...)
		case "ghostlocal":
			// ghostlocal name type = init
			if cur == nil {
				continue
			}
			eqi := strings.Index(rest, "=")
			if eqi < 0 {
				cs.errf(loc, "expected 'ghostlocal name type = init'")
				continue
			}
			ps, err := parseParams(strings.TrimSpace(rest[:eqi]))
			if err != nil || len(ps) != 1 {
				cs.errf(loc, "bad ghostlocal declaration %q", rest)
				continue
			}
			c, ok := mkClause(strings.TrimSpace(rest[eqi+1:]), loc)
			if !ok {
				continue
			}
			cur.GhostLocals = append(cur.GhostLocals, GhostLocal{Name: ps[0].Name, Type: ps[0].Type, Init: c})
		case "cutafter":
			// cutafter call NAME#k
			if cur == nil {
				continue
			}
			f := strings.Fields(rest)
			if len(f) != 2 || f[0] != "call" {
				cs.errf(loc, "expected 'cutafter call NAME#k'")
				continue
			}
			if !strings.Contains(f[1], "#") {
				f[1] += "#0"
			}
			cur.CutAfter = append(cur.CutAfter, f[1])
		case "requires", "ensures":
			if cur == nil {
				cs.errf(loc, "%s outside a function block", kw)
				continue
			}
			c, ok := mkClause(rest, loc)
			if !ok {
				continue
			}
			if kw == "requires" {
				cur.Requires = append(cur.Requires, c)
			} else {
				cur.Ensures = append(cur.Ensures, c)
			}
		case "decreases":
			if cur == nil {
				continue
			}
			if c, ok := mkClause(rest, loc); ok {
				cur.Decr = &c
			}
		case "modifies":
			if cur == nil {
				continue
			}
			for _, m := range strings.Split(rest, ",") {
				m = strings.TrimSpace(m)
				if m != "" {
					cur.Modifies = append(cur.Modifies, m)
				}
			}
		case "loop":
			if cur == nil {
				continue
			}
			// loop K: invariant E | decreases E | unroll N
			j := strings.Index(rest, ":")
			if j < 0 {
				cs.errf(loc, "expected 'loop K: ...'")
				continue
			}
			k, err := strconv.Atoi(strings.TrimSpace(rest[:j]))
			if err != nil {
				cs.errf(loc, "bad loop ordinal")
				continue
			}
			ls := cur.Loops[k]
			if ls == nil {
				ls = &LoopSpec{}
				cur.Loops[k] = ls
			}
			w, r2 := splitWord(rest[j+1:])
			switch w {
			case "invariant":
				if c, ok := mkClause(r2, loc); ok {
					ls.Invariants = append(ls.Invariants, c)
				}
			case "decreases":
				if c, ok := mkClause(r2, loc); ok {
					ls.Decreases = &c
				}
			case "isolate":
				ls.Isolate = true
			case "unroll":
				n, err := strconv.Atoi(r2)
				if err != nil {
					cs.errf(loc, "bad unroll count")
				}
				ls.Unroll = n
			default:
				cs.errf(loc, "unknown loop clause %q", w)
			}
		case "at":
			// at call NAME#k [after]: assert E | ghost x = E
			if cur == nil {
				continue
			}
			j := strings.Index(rest, ":")
			if j < 0 {
				cs.errf(loc, "expected 'at call NAME#k [after]: ...'")
				continue
			}
			head := strings.Fields(rest[:j])
			if len(head) == 1 && head[0] == "entry" {
				// at entry: ghost <var | x.ghostfield> = E   (executed once, after the precondition)
				w, r2 := splitWord(rest[j+1:])
				e := strings.Index(r2, "=")
				if w != "ghost" || e < 0 {
					cs.errf(loc, "expected 'at entry: ghost x = E'")
					continue
				}
				c, ok := mkClause(strings.TrimSpace(r2[e+1:]), loc)
				if !ok {
					continue
				}
				cur.AtEntry = append(cur.AtEntry, AtStmt{Kind: "ghost", Target: strings.TrimSpace(r2[:e]), C: c})
				continue
			}
			if len(head) == 1 && head[0] == "return" {
				// at return: ghost <var | x.ghostfield> = E   (executed at every return, results bound)
				w, r2 := splitWord(rest[j+1:])
				e := strings.Index(r2, "=")
				if w != "ghost" || e < 0 {
					cs.errf(loc, "expected 'at return: ghost x = E'")
					continue
				}
				c, ok := mkClause(strings.TrimSpace(r2[e+1:]), loc)
				if !ok {
					continue
				}
				cur.AtReturn = append(cur.AtReturn, AtStmt{Kind: "ghost", Target: strings.TrimSpace(r2[:e]), C: c})
				continue
			}
			if len(head) < 2 || head[0] != "call" {
				cs.errf(loc, "expected 'at call NAME#k'")
				continue
			}
			name := head[1]
			ord := 0
			if h := strings.Index(name, "#"); h >= 0 {
				ord, _ = strconv.Atoi(name[h+1:])
				name = name[:h]
			}
			a := AtStmt{Callee: name, Ord: ord}
			if len(head) > 2 && head[2] == "after" {
				a.After = true
			}
			w, r2 := splitWord(rest[j+1:])
			switch w {
			case "assert":
				c, ok := mkClause(r2, loc)
				if !ok {
					continue
				}
				a.Kind, a.C = "assert", c
			case "ghost":
				e := strings.Index(r2, "=")
				if e < 0 {
					cs.errf(loc, "expected 'ghost x = E'")
					continue
				}
				c, ok := mkClause(strings.TrimSpace(r2[e+1:]), loc)
				if !ok {
					continue
				}
				a.Kind, a.Target, a.C = "ghost", strings.TrimSpace(r2[:e]), c
			default:
				cs.errf(loc, "unknown at-statement %q (assume is not allowed)", w)
				continue
			}
			cur.At = append(cur.At, a)
		case "spec", "uf":
			cur = nil
			// spec name(params) T = E     /  uf name(params) T
			lp := strings.Index(rest, "(")
			if lp < 0 {
				cs.errf(loc, "bad %s declaration", kw)
				continue
			}
			name := strings.TrimSpace(rest[:lp])
			opaque := false
			if strings.HasPrefix(name, "opaque ") {
				opaque = true
				name = strings.TrimSpace(strings.TrimPrefix(name, "opaque "))
			}
			// find matching paren
			depth, rp := 0, -1
			for k := lp; k < len(rest); k++ {
				if rest[k] == '(' {
					depth++
				} else if rest[k] == ')' {
					depth--
					if depth == 0 {
						rp = k
						break
					}
				}
			}
			if rp < 0 {
				cs.errf(loc, "unbalanced parentheses")
				continue
			}
			ps, err := parseParams(rest[lp+1 : rp])
			if err != nil {
				cs.errf(loc, "bad parameters: %v", err)
				continue
			}
			tail := strings.TrimSpace(rest[rp+1:])
			sf := &SpecFun{Name: name, Params: ps, Src: ln, PkgPath: pkgPath, Line: loc, Opaque: opaque}
			retSrc, bodySrc := tail, ""
			if kw == "spec" {
				e := strings.Index(tail, "=")
				if e < 0 {
					cs.errf(loc, "spec needs '= body'")
					continue
				}
				retSrc, bodySrc = strings.TrimSpace(tail[:e]), strings.TrimSpace(tail[e+1:])
			}
			if retSrc != "" {
				rt, err := parser.ParseExpr(retSrc)
				if err != nil {
					cs.errf(loc, "bad return type %q", retSrc)
					continue
				}
				sf.Ret = rt
			}
			if kw == "spec" {
				b, err := parseSpecExpr(bodySrc)
				if err != nil {
					cs.errf(loc, "%v", err)
					continue
				}
				sf.Body = b
			}
			if _, dup := cs.Specs[name]; dup {
				cs.errf(loc, "duplicate spec function %s", name)
			}
			cs.Specs[name] = sf
		case "axiom":
			cur = nil
			j := strings.Index(rest, ":")
			if j < 0 {
				cs.errf(loc, "expected 'axiom name: E'")
				continue
			}
			if c, ok := mkClause(strings.TrimSpace(rest[j+1:]), loc); ok {
				cs.Axioms = append(cs.Axioms, &Axiom{Name: strings.TrimSpace(rest[:j]), C: c, PkgPath: pkgPath})
			}
		case "ghostfield":
			cur = nil
			// ghostfield T.name type
			w, r2 := splitWord(rest)
			j := strings.LastIndex(w, ".") // the type may be package-qualified: pkg.T.name
			if j < 0 {
				cs.errf(loc, "expected 'ghostfield T.name type'")
				continue
			}
			te, err := parser.ParseExpr(r2)
			if err != nil {
				cs.errf(loc, "bad type %q", r2)
				continue
			}
			cs.GhostFields[pkgPath+"."+w] = &GhostField{Type: w[:j], Name: w[j+1:], GType: te, PkgPath: pkgPath}
		case "ghostvar":
			cur = nil
			w, r2 := splitWord(rest)
			te, err := parser.ParseExpr(r2)
			if err != nil {
				cs.errf(loc, "bad type %q", r2)
				continue
			}
			cs.GhostVars[w] = Param{w, te}
		case "nopaniconly":
			if cur != nil {
				cur.NoPanicOnly = true
			}
		case "#", "note":
			// comment inside contracts
		default:
			cs.errf(loc, "unknown contract keyword %q", kw)
		}
	}
}
