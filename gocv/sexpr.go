package main

// Small S-expression utilities used to pre-process obligations: skolemisation of the goal and
// ground instantiation of bounded universal hypotheses at the index terms that occur in the goal.
// Both transformations preserve validity (instances of assumed universals are consequences;
// a positive universal in the goal is equivalent to its instance at a fresh constant).

import (
	"fmt"
	"regexp"
	"sort"
	"strings"
)

type sx struct {
	atom string
	kids []*sx
	sort string // optional: known sort of the term (instantiation candidates)
}

func (s *sx) isAtom() bool { return s.kids == nil && s.atom != "" }

func (s *sx) String() string {
	var sb strings.Builder
	s.write(&sb)
	return sb.String()
}

func (s *sx) write(sb *strings.Builder) {
	if s.kids == nil {
		sb.WriteString(s.atom)
		return
	}
	sb.WriteByte('(')
	for i, k := range s.kids {
		if i > 0 {
			sb.WriteByte(' ')
		}
		k.write(sb)
	}
	sb.WriteByte(')')
}

func parseSx(src string) (*sx, bool) {
	pos := 0
	var parse func() (*sx, bool)
	skip := func() {
		for pos < len(src) && (src[pos] == ' ' || src[pos] == '\n' || src[pos] == '\t') {
			pos++
		}
	}
	parse = func() (*sx, bool) {
		skip()
		if pos >= len(src) {
			return nil, false
		}
		if src[pos] == '(' {
			pos++
			n := &sx{kids: []*sx{}}
			for {
				skip()
				if pos >= len(src) {
					return nil, false
				}
				if src[pos] == ')' {
					pos++
					return n, true
				}
				k, ok := parse()
				if !ok {
					return nil, false
				}
				n.kids = append(n.kids, k)
			}
		}
		if src[pos] == ')' {
			return nil, false
		}
		st := pos
		if src[pos] == '|' {
			pos++
			for pos < len(src) && src[pos] != '|' {
				pos++
			}
			pos++
		} else {
			for pos < len(src) && src[pos] != ' ' && src[pos] != '(' && src[pos] != ')' && src[pos] != '\n' && src[pos] != '\t' {
				pos++
			}
		}
		return &sx{atom: src[st:pos]}, true
	}
	n, ok := parse()
	if !ok {
		return nil, false
	}
	skip()
	if pos != len(src) {
		return nil, false
	}
	return n, true
}

func (s *sx) head() string {
	if s.kids != nil && len(s.kids) > 0 && s.kids[0].isAtom() {
		return s.kids[0].atom
	}
	return ""
}

// subst replaces every occurrence of atom name by the term repl.
func (s *sx) subst(name string, repl *sx) *sx {
	if s.kids == nil {
		if s.atom == name {
			return repl
		}
		return s
	}
	out := &sx{kids: make([]*sx, len(s.kids))}
	changed := false
	for i, k := range s.kids {
		out.kids[i] = k.subst(name, repl)
		if out.kids[i] != k {
			changed = true
		}
	}
	if !changed {
		return s
	}
	return out
}

var refVarRe = regexp.MustCompile(`_qa[0-9]+$`)
var refAtomRe = regexp.MustCompile(`^(sk!.*_qa[0-9]+![0-9]+|skh!.*_qa[0-9]+![0-9]+|[A-Za-z_][A-Za-z0-9_]*![0-9]+)$`)

// sliceDeltas collects d from (mk_slice B (+ O d) ...) terms: offsets introduced by s[d:].
func sliceDeltas(s *sx, out map[string]bool) {
	if s.kids == nil {
		return
	}
	if s.head() == "mk_slice" && len(s.kids) == 5 {
		o := s.kids[2]
		if (o.head() == "+" || o.head() == "bvadd") && len(o.kids) == 3 && closed(o.kids[2], map[string]bool{}) {
			if d := o.kids[2].String(); len(d) < 40 && d != "0" {
				out[d] = true
			}
		}
	}
	for _, k := range s.kids {
		sliceDeltas(k, out)
	}
}

// collectRefAtoms collects constants that are compared with, or passed to, functions in the goal:
// skolem constants of reference quantifiers and named values.
func collectRefAtoms(s *sx, out map[string]bool) {
	if s.kids == nil {
		return
	}
	h := s.head()
	if h == "select" && len(s.kids) == 3 && !isElemArray(s.kids[1]) {
		// field read x.f: x is a reference of interest
		k := s.kids[2]
		if k.isAtom() && refAtomRe.MatchString(k.atom) && !anyBoundRe.MatchString(k.atom) {
			out[k.atom] = true
		} else if k.head() == "select" && len(k.kids) == 3 && isElemArray(k.kids[1]) && closed(k, map[string]bool{}) {
			if str := k.String(); len(str) < 400 {
				out[str] = true
			}
		}
	}
	if h == "=" || strings.HasPrefix(h, "app") || strings.HasPrefix(h, "uf_") || strings.HasPrefix(h, "pure") || strings.HasPrefix(h, "op_") {
		for _, k := range s.kids[1:] {
			// element reads compared with / passed to something: the element is a reference term too
			if k.head() == "select" && len(k.kids) == 3 && isElemArray(k.kids[1]) && closed(k, map[string]bool{}) {
				if str := k.String(); len(str) < 400 {
					out[str] = true
				}
			}
			if k.isAtom() {
				isSk := strings.HasPrefix(k.atom, "sk!") || strings.HasPrefix(k.atom, "skh!")
				if (isSk && strings.Contains(k.atom, "_qa")) || (!isSk && refAtomRe.MatchString(k.atom) && !anyBoundRe.MatchString(k.atom)) {
					out[k.atom] = true
				}
			}
		}
	}
	for _, k := range s.kids {
		collectRefAtoms(k, out)
	}
}

var anyBoundTokRe = regexp.MustCompile(`_q[ia]?[0-9]+\b|\bq[ijbo]\b`)
var specVarRe = regexp.MustCompile(`_qi[0-9]+$`)
var anyBoundRe = regexp.MustCompile(`_q[ia]?[0-9]+$`)

// quantParts: (forall ((x S)) body) with a single spec-generated binder.
func quantParts(s *sx, kind string) (name, sortS string, body *sx, ok bool) {
	if s.head() != kind || len(s.kids) != 3 {
		return
	}
	bs := s.kids[1]
	if bs.kids == nil || len(bs.kids) != 1 || len(bs.kids[0].kids) != 2 || !bs.kids[0].kids[0].isAtom() {
		return
	}
	name = bs.kids[0].kids[0].atom
	sortS = bs.kids[0].kids[1].String()
	body = s.kids[2]
	if body.head() == "!" && len(body.kids) >= 2 {
		body = body.kids[1]
	}
	ok = true
	return
}

// normQuant rewrites, preserving equivalence, shapes that hide quantifiers from the instantiation
// and skolemisation passes:
//   (= A B) over Bool with quantifiers inside  ->  (and (=> A B) (=> B A))
//   (=> (exists k. P) B)                         ->  (forall k. (=> P B))
//   (=> (or X Y) B)                              ->  (and (=> X B) (=> Y B))   when X or Y has a quantifier
func normQuant(h *sx) *sx {
	if h.kids == nil || !containsQuant(h) {
		return h
	}
	switch h.head() {
	case "=":
		isBoolHead := func(s *sx) bool {
			switch s.head() {
			case "exists", "forall", "and", "or", "not", "=>":
				return true
			}
			return false
		}
		if len(h.kids) == 3 && (isBoolHead(h.kids[1]) || isBoolHead(h.kids[2])) && (containsQuant(h.kids[1]) || containsQuant(h.kids[2])) {
			a, b := normQuant(h.kids[1]), normQuant(h.kids[2])
			imp := &sx{atom: "=>"}
			return &sx{kids: []*sx{{atom: "and"}, normQuant(&sx{kids: []*sx{imp, a, b}}), normQuant(&sx{kids: []*sx{imp, b, a}})}}
		}
		return h
	case "=>":
		if len(h.kids) != 3 {
			return h
		}
		a, b := normQuant(h.kids[1]), normQuant(h.kids[2])
		if a.head() == "exists" {
			name, sortS, body, ok := quantParts(a, "exists")
			if ok {
				binder := &sx{kids: []*sx{{kids: []*sx{{atom: name}, mustParse(sortS)}}}}
				return &sx{kids: []*sx{{atom: "forall"}, binder, normQuant(&sx{kids: []*sx{{atom: "=>"}, body, b}})}}
			}
		}
		if a.head() == "or" && containsQuant(a) {
			out := &sx{kids: []*sx{{atom: "and"}}}
			for _, k := range a.kids[1:] {
				out.kids = append(out.kids, normQuant(&sx{kids: []*sx{{atom: "=>"}, k, b}}))
			}
			return out
		}
		return &sx{kids: []*sx{h.kids[0], a, b}}
	case "and", "or", "not":
		out := &sx{kids: []*sx{h.kids[0]}}
		for _, k := range h.kids[1:] {
			out.kids = append(out.kids, normQuant(k))
		}
		return out
	case "forall", "exists":
		if len(h.kids) == 3 {
			return &sx{kids: []*sx{h.kids[0], h.kids[1], normQuant(h.kids[2])}}
		}
	}
	return h
}

func mustParse(s string) *sx {
	p, ok := parseSx(s)
	if !ok {
		return &sx{atom: s}
	}
	return p
}

// skolemize replaces positive universal quantifiers of the goal by fresh constants.
func skolemize(g *sx, idxSort string, decls *[]string, n *int) *sx {
	switch g.head() {
	case "and":
		out := &sx{kids: []*sx{g.kids[0]}}
		for _, k := range g.kids[1:] {
			out.kids = append(out.kids, skolemize(k, idxSort, decls, n))
		}
		return out
	case "=>":
		if len(g.kids) == 3 {
			// existentials of the antecedent are universals of the goal: fresh constants as well
			return &sx{kids: []*sx{g.kids[0], skolemizeHyp(g.kids[1], decls, n), skolemize(g.kids[2], idxSort, decls, n)}}
		}
	case "not":
		if len(g.kids) == 2 {
			nk := skolemizeHyp(g.kids[1], decls, n)
			if nk != g.kids[1] {
				return &sx{kids: []*sx{g.kids[0], nk}}
			}
		}
	case "or":
		out := &sx{kids: []*sx{g.kids[0]}}
		for _, k := range g.kids[1:] {
			if k.head() == "not" && len(k.kids) == 2 {
				out.kids = append(out.kids, &sx{kids: []*sx{k.kids[0], skolemizeHyp(k.kids[1], decls, n)}})
			} else {
				out.kids = append(out.kids, k)
			}
		}
		return out
	case "forall":
		name, sortS, body, ok := quantParts(g, "forall")
		if ok {
			*n++
			c := fmt.Sprintf("sk!%s!%d", name, *n)
			*decls = append(*decls, fmt.Sprintf("(declare-const %s %s)", c, sortS))
			return skolemize(body.subst(name, &sx{atom: c}), idxSort, decls, n)
		}
	}
	return g
}

// expandGoalExists strengthens nothing and weakens nothing: a positive (exists k. B) in the goal is
// replaced by (or (exists k. B) B[c1] ... B[cn]) for candidate index terms ci (each instance implies
// the existential), which spares the solver the search for the witness.
func expandGoalExists(g *sx, idxSort string, cands []*sx, budget *int) *sx {
	switch g.head() {
	case "and", "or":
		out := &sx{kids: []*sx{g.kids[0]}}
		for _, k := range g.kids[1:] {
			out.kids = append(out.kids, expandGoalExists(k, idxSort, cands, budget))
		}
		return out
	case "=>":
		if len(g.kids) == 3 {
			return &sx{kids: []*sx{g.kids[0], g.kids[1], expandGoalExists(g.kids[2], idxSort, cands, budget)}}
		}
	case "exists":
		name, sortS, body, ok := quantParts(g, "exists")
		if ok && sortS == idxSort && specVarRe.MatchString(name) && *budget > 0 {
			out := &sx{kids: []*sx{{atom: "or"}, g}}
			for _, c := range cands {
				if *budget <= 0 {
					break
				}
				*budget--
				out.kids = append(out.kids, expandGoalExists(body.subst(name, c), idxSort, cands, budget))
			}
			return out
		}
	}
	return g
}

// skolemizeHyp replaces positive existential quantifiers of a hypothesis by fresh constants
// (not under a universal binder): (exists x. B) becomes B[c/x].
func skolemizeHyp(h *sx, decls *[]string, n *int) *sx {
	switch h.head() {
	case "and", "or":
		out := &sx{kids: []*sx{h.kids[0]}}
		changed := false
		for _, k := range h.kids[1:] {
			nk := skolemizeHyp(k, decls, n)
			if nk != k {
				changed = true
			}
			out.kids = append(out.kids, nk)
		}
		if !changed {
			return h
		}
		return out
	case "=>":
		if len(h.kids) == 3 {
			nk := skolemizeHyp(h.kids[2], decls, n)
			if nk == h.kids[2] {
				return h
			}
			return &sx{kids: []*sx{h.kids[0], h.kids[1], nk}}
		}
	case "exists":
		name, sortS, body, ok := quantParts(h, "exists")
		if ok {
			*n++
			c := fmt.Sprintf("skh!%s!%d", name, *n)
			*decls = append(*decls, fmt.Sprintf("(declare-const %s %s)", c, sortS))
			return skolemizeHyp(body.subst(name, &sx{atom: c}), decls, n)
		}
	}
	return h
}

// indexCandidates collects terms used as slice/array indices: for (select A T) where T is
// (+ (sl_off ..) t) or (bvadd (sl_off ..) t) the candidate is t, otherwise T itself when it is a
// constant of the index sort.
func indexCandidates(s *sx, out map[string]bool, bound map[string]bool) {
	if s.kids == nil {
		return
	}
	if s.head() == "select" && len(s.kids) == 3 && isElemArray(s.kids[1]) {
		t := s.kids[2]
		if (t.head() == "+" || t.head() == "bvadd") && len(t.kids) == 3 && t.kids[1].head() == "sl_off" {
			t = t.kids[2]
		}
		if closed(t, bound) && t.String() != "qo" {
			str := t.String()
			if len(str) < 80 {
				out[str] = true
			} else if len(str) < 300 {
				// long index terms (an index read from a ghost array of a long-named type) are kept apart:
				// they are added after the regular candidates, never instead of them
				out["\x00long:"+str] = true
			}
		}
	}
	switch s.head() {
	case "forall", "exists":
		name, _, body, ok := quantParts(s, s.head())
		if ok {
			nb := map[string]bool{name: true}
			for k := range bound {
				nb[k] = true
			}
			indexCandidates(body, out, nb)
			return
		}
	}
	for _, k := range s.kids {
		indexCandidates(k, out, bound)
	}
}

// isElemArray: the array argument of an element access (inner array of a slice memory, or one of
// the named element arrays introduced by the append/copy models), as opposed to a per-object
// field array indexed by a reference.
func isElemArray(a *sx) bool {
	if a.head() == "select" {
		return true
	}
	if a.isAtom() {
		for _, p := range []string{"apparr", "cparr", "sarr", "tarr", "srcarr", "dstarr", "sbarr"} {
			if strings.HasPrefix(a.atom, p) {
				return true
			}
		}
	}
	if a.head() == "store" && len(a.kids) == 4 {
		return isElemArray(a.kids[1])
	}
	return false
}

func closed(s *sx, bound map[string]bool) bool {
	if s.kids == nil {
		return !bound[s.atom] && !anyBoundRe.MatchString(s.atom) && s.atom != "qi" && s.atom != "qj" && s.atom != "qb" && s.atom != "qo"
	}
	for _, k := range s.kids {
		if !closed(k, bound) {
			return false
		}
	}
	return true
}

// instances returns consequences of the hypothesis h obtained by instantiating its positive,
// spec-generated, index-sorted universal quantifiers at the candidate terms.
func instances(h *sx, idxSort string, cands []*sx, refCands []*sx, depth int, budget *int) []*sx {
	if depth > 2 || *budget <= 0 {
		return nil
	}
	switch h.head() {
	case "and":
		var out []*sx
		for _, k := range h.kids[1:] {
			out = append(out, instances(k, idxSort, cands, refCands, depth, budget)...)
		}
		return out
	case "=>":
		if len(h.kids) == 3 {
			var out []*sx
			for _, i := range instances(h.kids[2], idxSort, cands, refCands, depth, budget) {
				out = append(out, &sx{kids: []*sx{h.kids[0], h.kids[1], i}})
			}
			return out
		}
	case "not":
		// (not (exists k. P)) is (forall k. (not P))
		if len(h.kids) == 2 && h.kids[1].head() == "exists" {
			name, sortS, body, ok := quantParts(h.kids[1], "exists")
			if ok {
				fa := &sx{kids: []*sx{{atom: "forall"}, {kids: []*sx{{kids: []*sx{{atom: name}, {atom: sortS}}}}}, {kids: []*sx{{atom: "not"}, body}}}}
				if p, ok := parseSx(fa.String()); ok {
					return instances(p, idxSort, cands, refCands, depth, budget)
				}
			}
		}
		return nil
	case "forall":
		name, sortS, body, ok := quantParts(h, "forall")
		if !ok {
			return nil
		}
		use := cands
		if refVarRe.MatchString(name) {
			// quantifier over references: instantiate at the reference constants of the goal.
			// Nested reference quantifiers (order axioms over triples) are left to the solver's
			// own instantiation: ground-instantiating them is cubic noise.
			inner := body
			for inner.head() == "=>" && len(inner.kids) == 3 {
				inner = inner.kids[2]
			}
			if inner.head() == "forall" {
				if n2, _, _, ok2 := quantParts(inner, "forall"); ok2 && refVarRe.MatchString(n2) {
					return nil
				}
			}
			use = refCands
		} else if sortS != idxSort || !specVarRe.MatchString(name) {
			return nil
		}
		var out []*sx
		for _, c := range use {
			if *budget <= 0 {
				break
			}
			if c.sort != "" && c.sort != sortS {
				continue
			}
			b := body.subst(name, c)
			inner := instances(b, idxSort, cands, refCands, depth+1, budget)
			if len(inner) > 0 {
				out = append(out, inner...)
			}
			if !containsQuant(b) || len(inner) == 0 {
				// keep the (possibly still quantified) instance itself as well
				*budget--
				out = append(out, b)
			}
		}
		return out
	}
	return nil
}

func containsQuant(s *sx) bool {
	if s.kids == nil {
		return false
	}
	if h := s.head(); h == "forall" || h == "exists" {
		return true
	}
	for _, k := range s.kids {
		if containsQuant(k) {
			return true
		}
	}
	return false
}

// preprocess returns the transformed hypotheses (original + instances), the skolemised goal and
// extra declarations.
// termIsInt: the term is known to have sort Int (a declared Int constant, a skolem of an Int binder,
// or an element read from a memory whose element sort is Int).
// isIdxTerm: the term certainly has the index sort (so that it may instantiate an index binder).
func isIdxTerm(t *sx, idxSort string, declSorts map[string]string, extraDecls []string) bool {
	if t.isAtom() {
		if t.atom != "" && (t.atom[0] >= '0' && t.atom[0] <= '9') {
			return idxSort == "Int"
		}
		if strings.HasPrefix(t.atom, "#x") {
			return idxSort != "Int" && len(t.atom) == 18
		}
		return termSort(t, declSorts, extraDecls) == idxSort
	}
	switch t.head() {
	case "+", "-", "*", "bvadd", "bvsub", "bvmul", "ite":
		start := 1
		if t.head() == "ite" {
			start = 2
		}
		for _, k := range t.kids[start:] {
			if !isIdxTerm(k, idxSort, declSorts, extraDecls) {
				return false
			}
		}
		return len(t.kids) > start
	case "sl_len", "sl_off", "sl_cap":
		return true
	case "select":
		return termSort(t, declSorts, extraDecls) == idxSort
	}
	return false
}

func termIsInt(t *sx, declSorts map[string]string, extraDecls []string) bool {
	return termSort(t, declSorts, extraDecls) == "Int"
}

// termSort: the sort of a constant or of an element read, "" when unknown.
func termSort(t *sx, declSorts map[string]string, extraDecls []string) string {
	if t.isAtom() {
		if s, ok := declSorts[t.atom]; ok {
			return s
		}
		pre := "(declare-const " + t.atom + " "
		for _, d := range extraDecls {
			if strings.HasPrefix(d, pre) {
				return strings.TrimSuffix(d[len(pre):], ")")
			}
		}
		return ""
	}
	if t.head() == "select" && len(t.kids) == 3 {
		// (select (select M b) i) / (select arr i): find the array symbol
		a := t.kids[1]
		depth := 1
		for a.head() == "select" && len(a.kids) == 3 {
			a = a.kids[1]
			depth++
		}
		for a.head() == "store" && len(a.kids) == 4 {
			a = a.kids[1]
		}
		if a.isAtom() {
			s, ok := declSorts[a.atom]
			if !ok {
				return ""
			}
			p := mustParse(s)
			for i := 0; i < depth; i++ {
				if p.head() != "Array" || len(p.kids) != 3 {
					return ""
				}
				p = p.kids[2]
			}
			return p.String()
		}
	}
	return ""
}

func preprocess(pc []string, goal string, mode Mode, declSorts map[string]string) (hyps []string, newGoal string, extraDecls []string) {
	idxSort := "Int"
	if mode == ModeBV {
		idxSort = "(_ BitVec 64)"
	}
	g, ok := parseSx(goal)
	if !ok {
		return pc, goal, nil
	}
	n := 0
	pc = append([]string(nil), pc...)
	g = normQuant(g)
	g = skolemize(g, idxSort, &extraDecls, &n)
	// peel implications: proving (=> A B) is proving B with A among the hypotheses
	candSet := map[string]bool{}
	var peeledAnte []*sx
	for g.head() == "=>" && len(g.kids) == 3 {
		a := g.kids[1]
		peeledAnte = append(peeledAnte, a)
		indexCandidates(a, candSet, map[string]bool{})
		if a.head() == "and" {
			for _, k := range a.kids[1:] {
				pc = append(pc, k.String())
			}
		} else {
			pc = append(pc, a.String())
		}
		g = skolemize(g.kids[2], idxSort, &extraDecls, &n)
	}
	newGoal = g.String()
	indexCandidates(g, candSet, map[string]bool{})
	var parsed []*sx
	for _, c := range pc {
		p, ok := parseSx(c)
		if !ok {
			parsed = append(parsed, nil)
			hyps = append(hyps, c)
			continue
		}
		if strings.Contains(c, "(exists ") {
			changed := false
			if np := normQuant(p); np != p {
				p, changed = np, true
			}
			if np := skolemizeHyp(p, &extraDecls, &n); np != p {
				p, changed = np, true
			}
			if changed {
				c = p.String()
			}
		}
		parsed = append(parsed, p)
		hyps = append(hyps, c)
	}
	var base, longC []string
	for k := range candSet {
		if strings.HasPrefix(k, "\x00long:") {
			longC = append(longC, strings.TrimPrefix(k, "\x00long:"))
			continue
		}
		base = append(base, k)
	}
	sort.Strings(base)
	if len(base) > 8 {
		base = base[:8]
	}
	sort.Strings(longC)
	if len(longC) > 2 {
		longC = longC[:2]
	}
	// index terms of the hypotheses (e.g. the s[i-1] the code read), shortest first
	pcSet := map[string]bool{}
	for _, p := range parsed {
		if p != nil {
			indexCandidates(p, pcSet, map[string]bool{})
		}
	}
	var pcC []string
	for k := range pcSet {
		if strings.HasPrefix(k, "\x00long:") {
			continue
		}
		if !candSet[k] {
			pcC = append(pcC, k)
		}
	}
	sort.Slice(pcC, func(i, j int) bool {
		if len(pcC[i]) != len(pcC[j]) {
			return len(pcC[i]) < len(pcC[j])
		}
		return pcC[i] < pcC[j]
	})
	if len(pcC) > 10 {
		pcC = pcC[:10]
	}
	var cands []*sx
	seen := map[string]bool{}
	add := func(s string) {
		if seen[s] {
			return
		}
		seen[s] = true
		if p, ok := parseSx(s); ok && isIdxTerm(p, idxSort, declSorts, extraDecls) {
			cands = append(cands, p)
		}
	}
	for _, b := range base {
		add(b)
	}
	for _, b := range pcC {
		add(b)
	}
	for _, b := range longC {
		add(b)
	}
	// named element reads of the goal: when the goal mentions a constant c that a hypothesis defines as
	// an element read (= c (select A idx)), idx (and idx shifted by the slicing offsets) is an index
	// term of interest too. These are extras: added after the regular candidates, never instead.
	var defC []string
	{
		atoms := map[string]bool{}
		var walkAtoms func(x *sx)
		walkAtoms = func(x *sx) {
			if x.kids == nil {
				if strings.Contains(x.atom, "!") {
					atoms[x.atom] = true
				}
				return
			}
			for _, k := range x.kids {
				walkAtoms(k)
			}
		}
		walkAtoms(g)
		ds := map[string]bool{}
		for _, p := range parsed {
			if p == nil || p.head() != "=" || len(p.kids) != 3 || !p.kids[1].isAtom() || !atoms[p.kids[1].atom] {
				continue
			}
			if p.kids[2].head() == "select" {
				indexCandidates(p.kids[2], ds, map[string]bool{})
			}
		}
		for k := range ds {
			if !strings.HasPrefix(k, "\x00long:") && !candSet[k] {
				defC = append(defC, k)
			}
		}
		sort.Strings(defC)
		if len(defC) > 3 {
			defC = defC[:3]
		}
		for _, b := range defC {
			add(b)
		}
	}
	for _, b := range base {
		if mode == ModeInt {
			add("(- " + b + " 1)")
			add("(+ " + b + " 1)")
		} else {
			add("(bvsub " + b + " #x0000000000000001)")
			add("(bvadd " + b + " #x0000000000000001)")
		}
	}
	// slicing offsets: s[d:] shifts indices by d, so c+d and c-d are index terms of interest too
	deltas := map[string]bool{}
	for _, p := range parsed {
		if p != nil {
			sliceDeltas(p, deltas)
		}
	}
	nd := 0
	for _, dlt := range sortedKeys(deltas) {
		if nd >= 3 {
			break
		}
		nd++
		for _, b := range append(append([]string(nil), base...), defC...) {
			if mode == ModeInt {
				add("(+ " + b + " " + dlt + ")")
				add("(- " + b + " " + dlt + ")")
			} else {
				add("(bvadd " + b + " " + dlt + ")")
				add("(bvsub " + b + " " + dlt + ")")
			}
		}
	}
	// reference constants of the goal: instantiation terms for quantifiers over references
	var refCands []*sx
	{
		rs := map[string]bool{}
		collectRefAtoms(g, rs)
		for _, a := range peeledAnte {
			collectRefAtoms(a, rs)
		}
		for _, k := range sortedKeys(rs) {
			if len(refCands) < 10 {
				if so := termSort(mustParse(k), declSorts, extraDecls); so != "" {
					c := mustParse(k)
					c.sort = so
					refCands = append(refCands, c)
				}
			}
		}
	}
	if len(cands) == 0 && len(refCands) == 0 {
		return
	}
	if strings.Contains(newGoal, "(exists ") {
		gb := 60
		g = expandGoalExists(g, idxSort, cands, &gb)
		newGoal = g.String()
	}
	budget := 600
	for _, p := range parsed {
		if p == nil || !containsQuant(p) {
			continue
		}
		for _, i := range instances(p, idxSort, cands, refCands, 0, &budget) {
			hyps = append(hyps, i.String())
		}
	}
	return
}
