package main

// Memory model: struct fields as per-field arrays, slices over per-sort backing memories,
// maps, cells for pointers to non-struct values, strings.

import (
	"fmt"
	"go/ast"
	"go/constant"
	"go/token"
	"go/types"
	"math/big"
	"strings"
)

// ---------- index arithmetic helpers (mode dependent) ----------

func (v *V) iadd(a, b string) string {
	if v.d.mode == ModeInt {
		return fmt.Sprintf("(+ %s %s)", a, b)
	}
	return fmt.Sprintf("(bvadd %s %s)", a, b)
}
func (v *V) isub(a, b string) string {
	if v.d.mode == ModeInt {
		return fmt.Sprintf("(- %s %s)", a, b)
	}
	return fmt.Sprintf("(bvsub %s %s)", a, b)
}
func (v *V) ile(a, b string) string {
	if v.d.mode == ModeInt {
		return fmt.Sprintf("(<= %s %s)", a, b)
	}
	return fmt.Sprintf("(bvsle %s %s)", a, b)
}
func (v *V) ilt(a, b string) string {
	if v.d.mode == ModeInt {
		return fmt.Sprintf("(< %s %s)", a, b)
	}
	return fmt.Sprintf("(bvslt %s %s)", a, b)
}

// toIdx converts an integer value to the index sort (int): in bv mode sign/zero-extends to 64 bits.
func (v *V) toIdx(e *Env, a Val) string {
	if isUntyped(a.T) {
		a = e.adapt(a, tInt)
	}
	if v.d.mode == ModeInt {
		return a.S
	}
	bits, signed, ok := intInfo(a.T)
	if !ok {
		panic(unsupported("index of type %s", a.T))
	}
	if bits == 64 {
		return a.S
	}
	if signed {
		return fmt.Sprintf("((_ sign_extend %d) %s)", 64-bits, a.S)
	}
	return fmt.Sprintf("((_ zero_extend %d) %s)", 64-bits, a.S)
}

// idxNonNegAndBelow: 0 <= i < n where i comes from a Go value (unsigned 64-bit values are
// compared unsigned so that huge values are out of range).
func (v *V) inRange(e *Env, i Val, n string, inclusive bool) string {
	idx := v.toIdx(e, i)
	if v.d.mode == ModeInt {
		op := "<"
		if inclusive {
			op = "<="
		}
		return fmt.Sprintf("(and (<= 0 %s) (%s %s %s))", idx, op, idx, n)
	}
	bits, signed, _ := intInfo(i.T)
	if isUntyped(i.T) {
		bits, signed = 64, true
	}
	op := "bvult"
	if inclusive {
		op = "bvule"
	}
	_ = bits
	_ = signed
	// n is a non-negative signed 64-bit value, so an unsigned comparison covers both bounds
	return fmt.Sprintf("(%s %s %s)", op, idx, n)
}

// ---------- heap components ----------

func (v *V) fieldComp(structT types.Type, f *types.Var) (string, string) {
	comp := "F$" + typeKey(structT) + "." + f.Name()
	if isRefLike(f.Type()) {
		v.d.refComps[comp] = "field"
	}
	v.d.noteIntComp(comp, "field", f.Type())
	return comp, fmt.Sprintf("(Array Int %s)", v.d.sortOf(f.Type()))
}

func (v *V) memComp(elem types.Type) (string, string) {
	es := v.d.sortOf(elem)
	if isRefLike(elem) {
		// memories of references are kept apart from memories of integers (same SMT sort)
		// (one memory per element type: slices of different element types never share storage)
		comp := "M$Ref." + typeKey(elem)
		v.d.refComps[comp] = "mem"
		return comp, fmt.Sprintf("(Array Int (Array %s %s))", v.d.idxSort(), es)
	}
	if b, ok := elem.Underlying().(*types.Basic); ok && v.d.mode == ModeInt && b.Info()&types.IsInteger != 0 {
		// integer memories are kept apart by element kind: Go slices of different element
		// kinds never share storage (unsafe reinterpretation is outside the model)
		bits, signed, _ := intInfo(b)
		k := "u"
		if signed {
			k = "s"
		}
		v.d.noteIntComp(fmt.Sprintf("M$Int%s%d", k, bits), "mem", elem)
		return fmt.Sprintf("M$Int%s%d", k, bits), fmt.Sprintf("(Array Int (Array %s %s))", v.d.idxSort(), es)
	}
	return "M$" + sanitize(es), fmt.Sprintf("(Array Int (Array %s %s))", v.d.idxSort(), es)
}

func (v *V) cellComp(t types.Type) (string, string) {
	es := v.d.sortOf(t)
	if isRefLike(t) {
		v.d.refComps["C$Ref"] = "field"
		return "C$Ref", fmt.Sprintf("(Array Int %s)", es)
	}
	return "C$" + sanitize(es), fmt.Sprintf("(Array Int %s)", es)
}

func (v *V) cellRead(st *State, ref string, t types.Type) Val {
	comp, sort := v.cellComp(t)
	return Val{T: t, S: st.heapRead(v.d, comp, sort, ref)}
}

func (v *V) cellWrite(st *State, ref string, val Val) {
	comp, sort := v.cellComp(val.T)
	st.heapSet(v.d, comp, sort, fmt.Sprintf("(store %s %s %s)", st.heapGet(v.d, comp, sort), ref, val.S))
}

// nameVal gives a compound term a name (fresh constant) to keep later terms small.
func (v *V) nameVal(e *Env, val Val, hint string) Val {
	if e.spec || e.inQuant > 0 || !strings.HasPrefix(val.S, "(") || len(val.S) < 24 {
		return val
	}
	if e.st.names == nil {
		e.st.names = map[string]string{}
	}
	if c, ok := e.st.names[val.S]; ok {
		return Val{T: val.T, S: c, C: val.C}
	}
	c := v.d.fresh(hint, v.d.sortOf(val.T))
	e.st.define(eq(c, val.S))
	e.st.names[val.S] = c
	return Val{T: val.T, S: c, C: val.C}
}

func (v *V) nilObl(e *Env, ref string, pos token.Pos, what string) {
	if e.spec {
		return
	}
	v.oblige(e, "nil", not(eq(ref, "0")), pos, "nil dereference: "+what)
}

// readField reads x.f where base is a pointer (ref) or struct value.
func (v *V) readField(e *Env, base Val, f *types.Var, pos token.Pos) Val {
	switch u := base.T.Underlying().(type) {
	case *types.Pointer:
		st := u.Elem()
		v.nilObl(e, base.S, pos, "."+f.Name())
		comp, sort := v.fieldComp(st, f)
		r := Val{T: f.Type(), S: e.st.heapRead(v.d, comp, sort, base.S)}
		if e.inQuant == 0 {
			r = v.nameVal(e, r, f.Name())
			for _, a := range v.typeInv(e.st, r) {
				e.st.assume(a)
			}
		}
		return r
	case *types.Struct:
		name := v.d.sortOf(base.T)
		return Val{T: f.Type(), S: fmt.Sprintf("(%s_%s %s)", name, sanitize(f.Name()), base.S)}
	}
	panic(unsupported("field %s of %s", f.Name(), base.T))
}

func (v *V) structUpdate(base Val, f *types.Var, nv Val) Val {
	u := base.T.Underlying().(*types.Struct)
	name := v.d.sortOf(base.T)
	var fs []string
	for i := 0; i < u.NumFields(); i++ {
		if u.Field(i) == f {
			fs = append(fs, nv.S)
		} else {
			fs = append(fs, fmt.Sprintf("(%s_%s %s)", name, sanitize(u.Field(i).Name()), base.S))
		}
	}
	return Val{T: base.T, S: fmt.Sprintf("(mk_%s %s)", name, strings.Join(fs, " "))}
}

func (v *V) writeFieldPtr(e *Env, ref Val, f *types.Var, nv Val, pos token.Pos) {
	st := ref.T.Underlying().(*types.Pointer).Elem()
	v.nilObl(e, ref.S, pos, "."+f.Name())
	comp, sort := v.fieldComp(st, f)
	e.st.heapSet(v.d, comp, sort, fmt.Sprintf("(store %s %s %s)", e.st.heapGet(v.d, comp, sort), ref.S, nv.S))
}

// deref implements *p.
func (v *V) deref(e *Env, p Val, pos token.Pos) Val {
	pt, ok := p.T.Underlying().(*types.Pointer)
	if !ok {
		panic(unsupported("dereference of %s", p.T))
	}
	v.nilObl(e, p.S, pos, "*")
	if st, ok := pt.Elem().Underlying().(*types.Struct); ok {
		name := v.d.sortOf(pt.Elem())
		var fs []string
		for i := 0; i < st.NumFields(); i++ {
			comp, sort := v.fieldComp(pt.Elem(), st.Field(i))
			fs = append(fs, fmt.Sprintf("(select %s %s)", e.st.heapGet(v.d, comp, sort), p.S))
		}
		if len(fs) == 0 {
			fs = []string{"false"}
		}
		return Val{T: pt.Elem(), S: fmt.Sprintf("(mk_%s %s)", name, strings.Join(fs, " "))}
	}
	r := v.cellRead(e.st, p.S, pt.Elem())
	if e.inQuant == 0 {
		for _, a := range v.typeInv(e.st, r) {
			e.st.assume(a)
		}
	}
	return r
}

func (v *V) storeThrough(e *Env, p Val, nv Val, pos token.Pos) {
	pt := p.T.Underlying().(*types.Pointer)
	v.nilObl(e, p.S, pos, "*")
	if st, ok := pt.Elem().Underlying().(*types.Struct); ok {
		name := v.d.sortOf(pt.Elem())
		for i := 0; i < st.NumFields(); i++ {
			f := st.Field(i)
			comp, sort := v.fieldComp(pt.Elem(), f)
			fv := fmt.Sprintf("(%s_%s %s)", name, sanitize(f.Name()), nv.S)
			e.st.heapSet(v.d, comp, sort, fmt.Sprintf("(store %s %s %s)", e.st.heapGet(v.d, comp, sort), p.S, fv))
		}
		return
	}
	v.cellWrite(e.st, p.S, Val{T: pt.Elem(), S: nv.S})
}

// alloc returns a fresh non-nil reference.
func (v *V) alloc(e *Env, hint string) string {
	r := v.d.fresh(hint, "Int")
	e.st.define(fmt.Sprintf("(> %s %s)", r, e.st.alloc))
	e.st.define(fmt.Sprintf("(> %s 0)", r))
	e.st.alloc = r
	return r
}

// ---------- selectors ----------

func (e *Env) evalSelector(x *ast.SelectorExpr) Val {
	v := e.v
	// package-qualified identifier
	if id, ok := x.X.(*ast.Ident); ok {
		var obj types.Object
		if e.info != nil {
			obj = e.info.ObjectOf(id)
		} else if _, bound := e.bound[id.Name]; !bound {
			if _, isGhost := e.st.ghost[id.Name]; !isGhost {
				if o, ok := e.lookupName(id.Name); ok {
					obj = o
				}
			}
		}
		if pn, ok := obj.(*types.PkgName); ok {
			o := pn.Imported().Scope().Lookup(x.Sel.Name)
			if o == nil {
				panic(bindErr("%s.%s does not resolve", id.Name, x.Sel.Name))
			}
			return e.objVal(o, x.Sel)
		}
	}
	// selection with type info
	if e.info != nil {
		if sel, ok := e.info.Selections[x]; ok {
			switch sel.Kind() {
			case types.FieldVal:
				base := e.eval(x.X)
				return v.walkFields(e, base, sel.Index(), x.Pos())
			case types.MethodVal:
				panic(unsupported("method value %s", x.Sel.Name))
			}
		}
	}
	// spec mode: resolve field by name on the value's type
	base := e.eval(x.X)
	if base.T == nil {
		panic(bindErr("selector on untyped spec value"))
	}
	// specs may mention unexported fields of types of other packages: look the field up from
	// the package that declares the type
	lookupPkg := e.pkgOrNil()
	{
		bt := base.T
		if p, ok := bt.Underlying().(*types.Pointer); ok {
			bt = p.Elem()
		}
		if n, ok := bt.(*types.Named); ok && n.Obj().Pkg() != nil {
			lookupPkg = n.Obj().Pkg()
		}
	}
	obj, index, _ := types.LookupFieldOrMethod(base.T, true, lookupPkg, x.Sel.Name)
	if fv, ok := obj.(*types.Var); ok && fv.IsField() {
		return v.walkFields(e, base, index, x.Pos())
	}
	// ghost field?
	if gf, st := v.ghostField(base.T, x.Sel.Name); gf != nil {
		return v.readGhostField(e, base, st, gf)
	}
	panic(bindErr("field %s not found on %s", x.Sel.Name, base.T))
}

func (e *Env) pkgOrNil() *types.Package {
	if e.pkg != nil {
		return e.pkg
	}
	return e.v.pkg.types
}

func (v *V) walkFields(e *Env, base Val, index []int, pos token.Pos) Val {
	cur := base
	for _, i := range index {
		var st *types.Struct
		switch u := cur.T.Underlying().(type) {
		case *types.Pointer:
			st = u.Elem().Underlying().(*types.Struct)
		case *types.Struct:
			st = u
		default:
			panic(unsupported("field path through %s", cur.T))
		}
		cur = v.readField(e, cur, st.Field(i), pos)
	}
	return cur
}

func (v *V) ghostField(t types.Type, name string) (*GhostField, types.Type) {
	if p, ok := t.Underlying().(*types.Pointer); ok {
		t = p.Elem()
	}
	orig := t
	if n, ok := t.(*types.Named); ok && n.Obj().Pkg() != nil {
		if gf := v.prog.contracts.GhostFields[n.Obj().Pkg().Path()+"."+n.Obj().Name()+"."+name]; gf != nil {
			return gf, t
		}
	}
	// a ghost field declared on an interface is a field of every object implementing it
	// (one component for all implementations, indexed by the object reference)
	for _, key := range sortedKeys(v.prog.contracts.GhostFields) {
		gf := v.prog.contracts.GhostFields[key]
		if gf.Name != name {
			continue
		}
		pi := v.prog.pkgs[gf.PkgPath]
		if pi == nil {
			continue
		}
		tx, err := parseSpecExpr(gf.Type)
		if err != nil {
			continue
		}
		gt := v.prog.resolveTypeIn(tx, pi.types, nil)
		if gt == nil {
			continue
		}
		if types.Identical(gt, orig) {
			return gf, gt
		}
		it, ok := gt.Underlying().(*types.Interface)
		if !ok {
			continue
		}
		if types.Implements(orig, it) || types.Implements(types.NewPointer(orig), it) {
			return gf, gt
		}
	}
	return nil, nil
}

func (v *V) ghostFieldComp(st types.Type, gf *GhostField) (string, string, types.Type) {
	gt := v.prog.resolveType(gf.GType, gf.PkgPath)
	comp := "G$" + typeKey(st) + "." + gf.Name
	if isRefLike(gt) {
		v.d.refComps[comp] = "field"
	}
	v.d.noteIntComp(comp, "field", gt)
	return comp, fmt.Sprintf("(Array Int %s)", v.d.sortOf(gt)), gt
}

func (v *V) readGhostField(e *Env, base Val, st types.Type, gf *GhostField) Val {
	comp, sort, gt := v.ghostFieldComp(st, gf)
	return Val{T: gt, S: fmt.Sprintf("(select %s %s)", e.st.heapGet(v.d, comp, sort), base.S)}
}

// ---------- slices, arrays, maps, strings ----------

func (v *V) sliceParts(s string) (base, off, ln, cp string) {
	return "(sl_base " + s + ")", "(sl_off " + s + ")", "(sl_len " + s + ")", "(sl_cap " + s + ")"
}

func (v *V) sliceElem(e *Env, s Val, idx string) Val {
	elem := s.T.Underlying().(*types.Slice).Elem()
	comp, sort := v.memComp(elem)
	base, off, _, _ := v.sliceParts(s.S)
	return Val{T: elem, S: fmt.Sprintf("(select %s %s)", e.st.heapRead(v.d, comp, sort, base), v.iadd(off, idx))}
}

func (v *V) sliceStore(e *Env, s Val, idx string, nv Val) {
	elem := s.T.Underlying().(*types.Slice).Elem()
	comp, sort := v.memComp(elem)
	base, off, _, _ := v.sliceParts(s.S)
	m := e.st.heapGet(v.d, comp, sort)
	e.st.heapSet(v.d, comp, sort, fmt.Sprintf("(store %s %s (store (select %s %s) %s %s))", m, base, m, base, v.iadd(off, idx), nv.S))
}

func (e *Env) evalIndex(x *ast.IndexExpr) Val {
	v := e.v
	// generic instantiation is not supported
	base := e.eval(x.X)
	switch u := base.T.Underlying().(type) {
	case *types.Slice:
		i := e.eval(x.Index)
		base = v.nameVal(e, base, "s")
		if !e.spec {
			v.oblige(e, "bounds", v.inRange(e, i, "(sl_len "+base.S+")", false), x.Pos(), "index out of range")
		}
		r := v.sliceElem(e, base, v.toIdx(e, i))
		if e.inQuant == 0 {
			r = v.nameVal(e, r, "el")
			for _, a := range v.typeInv(e.st, r) {
				e.st.assume(a)
			}
		}
		return r
	case *types.Array:
		i := e.eval(x.Index)
		if !e.spec {
			v.oblige(e, "bounds", v.inRange(e, i, v.d.idxLit(u.Len()), false), x.Pos(), "array index out of range")
		}
		return Val{T: u.Elem(), S: fmt.Sprintf("(select %s %s)", base.S, v.toIdx(e, i))}
	case *types.Pointer:
		if at, ok := u.Elem().Underlying().(*types.Array); ok {
			arr := v.deref(e, base, x.Pos())
			i := e.eval(x.Index)
			if !e.spec {
				v.oblige(e, "bounds", v.inRange(e, i, v.d.idxLit(at.Len()), false), x.Pos(), "array index out of range")
			}
			return Val{T: at.Elem(), S: fmt.Sprintf("(select %s %s)", arr.S, v.toIdx(e, i))}
		}
	case *types.Map:
		k := v.coerce(e, e.eval(x.Index), u.Key())
		val, _ := v.mapRead(e, base, k)
		return val
	case *types.Basic:
		if u.Info()&types.IsString != 0 {
			i := e.eval(x.Index)
			if v.d.mode != ModeInt {
				panic(unsupported("string indexing in bv mode"))
			}
			if !e.spec {
				v.oblige(e, "bounds", fmt.Sprintf("(and (<= 0 %s) (< %s (str_len %s)))", i.S, i.S, base.S), x.Pos(), "string index out of range")
			}
			v.d.declareFun("str_at", []string{"Str", "Int"}, "Int")
			r := Val{T: tByte, S: fmt.Sprintf("(str_at %s %s)", base.S, v.toIdx(e, i))}
			if e.inQuant == 0 {
				e.st.assume(fmt.Sprintf("(and (<= 0 %s) (<= %s 255))", r.S, r.S))
			}
			return r
		}
	}
	panic(unsupported("index expression on %s", base.T))
}

func (e *Env) evalSliceExpr(x *ast.SliceExpr) Val {
	v := e.v
	base := e.eval(x.X)
	if isString(base.T) {
		return v.strSlice(e, base, x)
	}
	var sl Val
	switch u := base.T.Underlying().(type) {
	case *types.Slice:
		sl = v.nameVal(e, base, "s")
	case *types.Pointer:
		_ = u
		panic(unsupported("slicing a pointer to array"))
	default:
		panic(unsupported("slice expression on %s", base.T))
	}
	b, off, ln, cp := v.sliceParts(sl.S)
	lo := v.d.idxLit(0)
	var loV, hiV, maxV *Val
	if x.Low != nil {
		t := e.eval(x.Low)
		loV = &t
		lo = v.toIdx(e, t)
	}
	hi := ln
	if x.High != nil {
		t := e.eval(x.High)
		hiV = &t
		hi = v.toIdx(e, t)
	}
	mx := cp
	if x.Max != nil {
		t := e.eval(x.Max)
		maxV = &t
		mx = v.toIdx(e, t)
	}
	if !e.spec {
		// 0 <= lo <= hi <= max <= cap
		var cs []string
		if loV != nil {
			cs = append(cs, v.inRange(e, *loV, hi, true))
		} else {
			cs = append(cs, v.ile(lo, hi))
		}
		if hiV != nil {
			cs = append(cs, v.inRange(e, *hiV, mx, true))
		}
		if maxV != nil {
			cs = append(cs, v.inRange(e, *maxV, cp, true))
		}
		if hiV == nil && loV != nil {
			// s[lo:] : lo <= len
			cs = []string{v.inRange(e, *loV, ln, true)}
		}
		v.oblige(e, "bounds", and(cs...), x.Pos(), "slice bounds out of range")
	}
	r := Val{T: base.T, S: fmt.Sprintf("(mk_slice %s %s %s %s)", b, v.iadd(off, lo), v.isub(hi, lo), v.isub(mx, lo))}
	return v.nameVal(e, r, "s")
}

func (v *V) builtinLen(e *Env, a Val, isCap bool) Val {
	switch u := a.T.Underlying().(type) {
	case *types.Slice:
		f := "sl_len"
		if isCap {
			f = "sl_cap"
		}
		return Val{T: tInt, S: fmt.Sprintf("(%s %s)", f, a.S)}
	case *types.Array:
		return Val{T: tInt, S: v.d.idxLit(u.Len()), C: constant.MakeInt64(u.Len())}
	case *types.Basic:
		if u.Info()&types.IsString != 0 {
			if a.C != nil {
				n := int64(len(constant.StringVal(a.C)))
				return Val{T: tInt, S: v.d.idxLit(n), C: constant.MakeInt64(n)}
			}
			if v.d.mode == ModeInt {
				return Val{T: tInt, S: fmt.Sprintf("(str_len %s)", a.S)}
			}
			return Val{T: tInt, S: fmt.Sprintf("((_ int2bv 64) (str_len %s))", a.S)}
		}
	case *types.Map:
		comp, sort := "ML", "(Array Int Int)"
		t := fmt.Sprintf("(select %s %s)", e.st.heapGet(v.d, comp, sort), a.S)
		if e.inQuant == 0 && !e.spec {
			// the length of a map is never negative
			e.st.define(fmt.Sprintf("(>= %s 0)", t))
		}
		if v.d.mode == ModeBV {
			t = fmt.Sprintf("((_ int2bv 64) %s)", t)
		}
		return Val{T: tInt, S: t}
	case *types.Pointer:
		if at, ok := u.Elem().Underlying().(*types.Array); ok {
			return Val{T: tInt, S: v.d.idxLit(at.Len()), C: constant.MakeInt64(at.Len())}
		}
	}
	panic(unsupported("len/cap of %s", a.T))
}

// makeSlice models make([]T, n[, c]).
func (v *V) makeSlice(e *Env, t types.Type, n, c Val, pos token.Pos, hasCap bool) Val {
	elem := t.Underlying().(*types.Slice).Elem()
	ni := v.toIdx(e, n)
	ci := ni
	if hasCap {
		ci = v.toIdx(e, c)
	}
	if !e.spec {
		v.oblige(e, "bounds", and(v.ile(v.d.idxLit(0), ni), v.ile(ni, ci)), pos, "make: negative length or len > cap")
	}
	base := v.alloc(e, "mk")
	comp, sort := v.memComp(elem)
	zeroArr := fmt.Sprintf("((as const (Array %s %s)) %s)", v.d.idxSort(), v.d.sortOf(elem), e.zero(elem).S)
	e.st.heapSet(v.d, comp, sort, fmt.Sprintf("(store %s %s %s)", e.st.heapGet(v.d, comp, sort), base, zeroArr))
	// allocation succeeded: the length is below the address-space bound
	e.st.assume(v.ile(ci, v.d.idxLit(1<<maxLenBits)))
	r := Val{T: t, S: fmt.Sprintf("(mk_slice %s %s %s %s)", base, v.d.idxLit(0), ni, ci)}
	return v.nameVal(e, r, "mk")
}

// appendSlice models append(s, elems...) for explicit elements.
func (v *V) appendElems(e *Env, s Val, elems []Val) Val {
	if len(elems) == 0 {
		return s
	}
	elemT := s.T.Underlying().(*types.Slice).Elem()
	comp, sort := v.memComp(elemT)
	s = v.nameVal(e, s, "s")
	base, off, ln, cp := v.sliceParts(s.S)
	n := int64(len(elems))
	newLen := v.iadd(ln, v.d.idxLit(n))
	fits := v.ile(newLen, cp)
	mem := e.st.heapGet(v.d, comp, sort)
	// in-place version
	arrIn := fmt.Sprintf("(select %s %s)", mem, base)
	for i, el := range elems {
		arrIn = fmt.Sprintf("(store %s %s %s)", arrIn, v.iadd(v.iadd(off, ln), v.d.idxLit(int64(i))), el.S)
	}
	memIn := fmt.Sprintf("(store %s %s %s)", mem, base, arrIn)
	// fresh backing: copy prefix (expressed with a quantifier-free trick: the new array agrees with
	// the old one shifted; we use a fresh array constrained pointwise by a quantifier)
	nb := v.d.fresh("app", "Int")
	e.st.define(fmt.Sprintf("(and (> %s %s) (> %s 0))", nb, e.st.alloc, nb))
	newAlloc := v.d.fresh("alloc", "Int")
	e.st.define(eq(newAlloc, ite(fits, e.st.alloc, nb)))
	e.st.alloc = newAlloc
	narr := v.d.fresh("apparr", fmt.Sprintf("(Array %s %s)", v.d.idxSort(), v.d.sortOf(elemT)))
	qi := "qi"
	v.d.usesQuant = true
	e.st.define(fmt.Sprintf("(forall ((%s %s)) (! (=> (and %s %s) (= (select %s %s) (select (select %s %s) %s))) :pattern ((select %s %s))))",
		qi, v.d.idxSort(), v.ile(v.d.idxLit(0), qi), v.ilt(qi, ln), narr, qi, mem, base, v.iadd(off, qi), narr, qi))
	arrNew := narr
	for i, el := range elems {
		arrNew = fmt.Sprintf("(store %s %s %s)", arrNew, v.iadd(ln, v.d.idxLit(int64(i))), el.S)
	}
	memNew := fmt.Sprintf("(store %s %s %s)", mem, nb, arrNew)
	ncap := v.d.fresh("ncap", v.d.idxSort())
	e.st.define(and(v.ile(newLen, ncap), v.ile(ncap, v.d.idxLit(1<<maxLenBits))))
	e.st.heapSet(v.d, comp, sort, ite(fits, memIn, memNew))
	r := Val{T: s.T, S: ite(fits,
		fmt.Sprintf("(mk_slice %s %s %s %s)", base, off, newLen, cp),
		fmt.Sprintf("(mk_slice %s %s %s %s)", nb, v.d.idxLit(0), newLen, ncap))}
	// growing a slice keeps it below the address-space bound (allocation succeeded)
	e.st.assume(v.ile(newLen, v.d.idxLit(1<<maxLenBits)))
	return v.nameVal(e, r, "app")
}

// appendSpread models append(s, t...).
func (v *V) appendSpread(e *Env, s Val, t Val) Val {
	elemT := s.T.Underlying().(*types.Slice).Elem()
	comp, sort := v.memComp(elemT)
	s = v.nameVal(e, s, "s")
	t = v.nameVal(e, t, "t")
	base, off, ln, cp := v.sliceParts(s.S)
	tb, toff, tln, _ := v.sliceParts(t.S)
	newLen := v.iadd(ln, tln)
	fits := v.ile(newLen, cp)
	mem := e.st.heapGet(v.d, comp, sort)
	v.d.usesQuant = true
	idx := v.d.idxSort()
	if len(e.st.guards) > 0 {
		panic(unsupported("append inside a short-circuit operand"))
	}
	nb := v.d.fresh("app", "Int")
	e.st.define(fmt.Sprintf("(and (> %s %s) (> %s 0))", nb, e.st.alloc, nb))
	newAlloc := v.d.fresh("alloc", "Int")
	e.st.define(eq(newAlloc, ite(fits, e.st.alloc, nb)))
	e.st.alloc = newAlloc
	rb := v.d.fresh("rbase", "Int")
	roff := v.d.fresh("roff", idx)
	e.st.define(eq(rb, ite(fits, base, nb)))
	e.st.define(eq(roff, ite(fits, off, v.d.idxLit(0))))
	arrSort := fmt.Sprintf("(Array %s %s)", idx, v.d.sortOf(elemT))
	sArr := v.d.fresh("sarr", arrSort)
	tArr := v.d.fresh("tarr", arrSort)
	e.st.define(eq(sArr, fmt.Sprintf("(select %s %s)", mem, base)))
	e.st.define(eq(tArr, fmt.Sprintf("(select %s %s)", mem, tb)))
	narr := v.d.fresh("apparr", arrSort)
	lo := v.iadd(roff, ln)
	hi := v.iadd(roff, newLen)
	// appended part comes from t (pre-state)
	e.st.define(fmt.Sprintf("(forall ((qj %s)) (! (=> (and %s %s) (= (select %s qj) (select %s %s))) :pattern ((select %s qj))))",
		idx, v.ile(lo, "qj"), v.ilt("qj", hi), narr, tArr, v.iadd(toff, v.isub("qj", lo)), narr))
	// in place: everything else unchanged
	e.st.define(fmt.Sprintf("(forall ((qj %s)) (! (=> (and %s (or %s %s)) (= (select %s qj) (select %s qj))) :pattern ((select %s qj))))",
		idx, fits, v.ilt("qj", lo), v.ile(hi, "qj"), narr, sArr, narr))
	// fresh backing: prefix copied
	e.st.define(fmt.Sprintf("(forall ((qj %s)) (! (=> (and (not %s) %s %s) (= (select %s qj) (select %s %s))) :pattern ((select %s qj))))",
		idx, fits, v.ile(v.d.idxLit(0), "qj"), v.ilt("qj", ln), narr, sArr, v.iadd(off, "qj"), narr))
	e.st.heapSet(v.d, comp, sort, fmt.Sprintf("(store %s %s %s)", mem, rb, narr))
	ncap := v.d.fresh("ncap", idx)
	e.st.define(and(v.ile(newLen, ncap), v.ile(ncap, v.d.idxLit(1<<maxLenBits)), implies(fits, eq(ncap, cp))))
	e.st.assume(v.ile(newLen, v.d.idxLit(1<<maxLenBits)))
	r := Val{T: s.T, S: fmt.Sprintf("(mk_slice %s %s %s %s)", rb, roff, newLen, ncap)}
	return v.nameVal(e, r, "app")
}

// copySlices models copy(dst, src) with memmove semantics; returns the count.
func (v *V) copySlices(e *Env, dst, src Val) Val {
	elemT := dst.T.Underlying().(*types.Slice).Elem()
	if isString(src.T) {
		src = v.strToBytes(e, src, dst.T)
	}
	comp, sort := v.memComp(elemT)
	dst = v.nameVal(e, dst, "dst")
	src = v.nameVal(e, src, "src")
	db, doff, dln, _ := v.sliceParts(dst.S)
	sb, soff, sln, _ := v.sliceParts(src.S)
	idx := v.d.idxSort()
	if len(e.st.guards) > 0 {
		panic(unsupported("copy inside a short-circuit operand"))
	}
	n := v.d.fresh("ncopy", idx)
	e.st.define(eq(n, ite(v.ile(dln, sln), dln, sln)))
	mem := e.st.heapGet(v.d, comp, sort)
	v.d.usesQuant = true
	arrSort := fmt.Sprintf("(Array %s %s)", idx, v.d.sortOf(elemT))
	srcArr := v.d.fresh("srcarr", arrSort)
	dstArr := v.d.fresh("dstarr", arrSort)
	e.st.define(eq(srcArr, fmt.Sprintf("(select %s %s)", mem, sb)))
	e.st.define(eq(dstArr, fmt.Sprintf("(select %s %s)", mem, db)))
	narr := v.d.fresh("cparr", arrSort)
	hi := v.iadd(doff, n)
	e.st.define(fmt.Sprintf("(forall ((qj %s)) (! (= (select %s qj) (ite (and %s %s) (select %s %s) (select %s qj))) :pattern ((select %s qj))))",
		idx, narr, v.ile(doff, "qj"), v.ilt("qj", hi), srcArr, v.iadd(soff, v.isub("qj", doff)), dstArr, narr))
	e.st.heapSet(v.d, comp, sort, fmt.Sprintf("(store %s %s %s)", mem, db, narr))
	return Val{T: tInt, S: n}
}

// ---------- maps ----------

func (v *V) mapComps(mt *types.Map) (dom, val, domSort, valSort string) {
	ks, vs := v.d.sortOf(mt.Key()), v.d.sortOf(mt.Elem())
	key := sanitize(ks) + "$" + sanitize(vs)
	return "MD$" + key, "MV$" + key, fmt.Sprintf("(Array Int (Array %s Bool))", ks), fmt.Sprintf("(Array Int (Array %s %s))", ks, vs)
}

func (v *V) mapRead(e *Env, m Val, k Val) (Val, string) {
	mt := m.T.Underlying().(*types.Map)
	dc, vc, ds, vs := v.mapComps(mt)
	// a nil map has no keys
	present := and(not(eq(m.S, "0")), fmt.Sprintf("(select (select %s %s) %s)", e.st.heapGet(v.d, dc, ds), m.S, k.S))
	raw := fmt.Sprintf("(select (select %s %s) %s)", e.st.heapGet(v.d, vc, vs), m.S, k.S)
	val := Val{T: mt.Elem(), S: ite(present, raw, e.zero(mt.Elem()).S)}
	if e.inQuant == 0 {
		val = v.nameVal(e, val, "mv")
		for _, a := range v.typeInv(e.st, val) {
			e.st.assume(a)
		}
	}
	return val, present
}

func (v *V) mapWrite(e *Env, m Val, k Val, nv Val, pos token.Pos) {
	mt := m.T.Underlying().(*types.Map)
	dc, vc, ds, vs := v.mapComps(mt)
	v.oblige(e, "nil", not(eq(m.S, "0")), pos, "assignment to entry in nil map")
	dom := e.st.heapGet(v.d, dc, ds)
	vals := e.st.heapGet(v.d, vc, vs)
	present := fmt.Sprintf("(select (select %s %s) %s)", dom, m.S, k.S)
	if rm, ok := e.st.ghost["$rangedmap"]; ok && !e.spec {
		v.oblige(e, "maprange", or(not(eq(m.S, rm.S)), present), pos, "insertion into the map being ranged over (iteration model assumes a fixed key set)")
	}
	ml := e.st.heapGet(v.d, "ML", "(Array Int Int)")
	e.st.heapSet(v.d, "ML", "(Array Int Int)", fmt.Sprintf("(store %s %s (ite %s (select %s %s) (+ (select %s %s) 1)))", ml, m.S, present, ml, m.S, ml, m.S))
	e.st.heapSet(v.d, dc, ds, fmt.Sprintf("(store %s %s (store (select %s %s) %s true))", dom, m.S, dom, m.S, k.S))
	e.st.heapSet(v.d, vc, vs, fmt.Sprintf("(store %s %s (store (select %s %s) %s %s))", vals, m.S, vals, m.S, k.S, nv.S))
}

func (v *V) mapDelete(e *Env, m Val, k Val) {
	mt := m.T.Underlying().(*types.Map)
	dc, _, ds, _ := v.mapComps(mt)
	dom := e.st.heapGet(v.d, dc, ds)
	present := fmt.Sprintf("(select (select %s %s) %s)", dom, m.S, k.S)
	if rm, ok := e.st.ghost["$rangedmap"]; ok && !e.spec {
		v.oblige(e, "maprange", not(eq(m.S, rm.S)), token.NoPos, "deletion from the map being ranged over (iteration model assumes a fixed key set)")
	}
	ml := e.st.heapGet(v.d, "ML", "(Array Int Int)")
	e.st.heapSet(v.d, "ML", "(Array Int Int)", fmt.Sprintf("(store %s %s (ite %s (- (select %s %s) 1) (select %s %s)))", ml, m.S, present, ml, m.S, ml, m.S))
	e.st.heapSet(v.d, dc, ds, fmt.Sprintf("(store %s %s (store (select %s %s) %s false))", dom, m.S, dom, m.S, k.S))
}

func (v *V) makeMap(e *Env, t types.Type) Val {
	mt := t.Underlying().(*types.Map)
	dc, _, ds, _ := v.mapComps(mt)
	r := v.alloc(e, "map")
	dom := e.st.heapGet(v.d, dc, ds)
	e.st.heapSet(v.d, dc, ds, fmt.Sprintf("(store %s %s ((as const (Array %s Bool)) false))", dom, r, v.d.sortOf(mt.Key())))
	ml := e.st.heapGet(v.d, "ML", "(Array Int Int)")
	e.st.heapSet(v.d, "ML", "(Array Int Int)", fmt.Sprintf("(store %s %s 0)", ml, r))
	return Val{T: t, S: r}
}

// ---------- strings ----------

func (v *V) strLit(s string) string {
	if name, ok := v.strLits[s]; ok {
		return name
	}
	name := fmt.Sprintf("strlit_%d", len(v.strLits))
	v.d.declare(name, fmt.Sprintf("(declare-const %s Str)", name))
	// facts relating this literal to earlier ones
	v.axioms = append(v.axioms, fmt.Sprintf("(= (str_len %s) %d)", name, len(s)))
	for other, oname := range v.strLits {
		v.axioms = append(v.axioms, fmt.Sprintf("(not (= %s %s))", name, oname))
		if s < other {
			v.axioms = append(v.axioms, fmt.Sprintf("(str_lt %s %s)", name, oname))
		} else {
			v.axioms = append(v.axioms, fmt.Sprintf("(str_lt %s %s)", oname, name))
		}
	}
	v.strLits[s] = name
	return name
}

func (v *V) useStrOrder() {
	if v.strOrder {
		return
	}
	v.strOrder = true
	v.d.usesQuant = true
	v.axioms = append(v.axioms,
		"(forall ((a Str)) (not (str_lt a a)))",
		"(forall ((a Str) (b Str) (c Str)) (=> (and (str_lt a b) (str_lt b c)) (str_lt a c)))",
		"(forall ((a Str) (b Str)) (or (str_lt a b) (= a b) (str_lt b a)))",
	)
	v.trust("Go string order is a strict total order (axiomatised; strings are an uninterpreted sort)")
}

func (v *V) strConcat(e *Env, a, b Val) Val {
	v.d.declareFun("str_cat", []string{"Str", "Str"}, "Str")
	r := Val{T: a.T, S: fmt.Sprintf("(str_cat %s %s)", a.S, b.S)}
	if e.inQuant == 0 {
		e.st.assume(eq(fmt.Sprintf("(str_len %s)", r.S), fmt.Sprintf("(+ (str_len %s) (str_len %s))", a.S, b.S)))
	}
	return r
}

func (v *V) strSlice(e *Env, s Val, x *ast.SliceExpr) Val {
	if v.d.mode != ModeInt {
		panic(unsupported("string slicing in bv mode"))
	}
	lo, hi := "0", fmt.Sprintf("(str_len %s)", s.S)
	if x.Low != nil {
		lo = e.eval(x.Low).S
	}
	if x.High != nil {
		hi = e.eval(x.High).S
	}
	if !e.spec {
		v.oblige(e, "bounds", fmt.Sprintf("(and (<= 0 %s) (<= %s %s) (<= %s (str_len %s)))", lo, lo, hi, hi, s.S), x.Pos(), "string slice bounds out of range")
	}
	v.d.declareFun("str_sub", []string{"Str", "Int", "Int"}, "Str")
	r := Val{T: s.T, S: fmt.Sprintf("(str_sub %s %s %s)", s.S, lo, hi)}
	if e.inQuant == 0 {
		e.st.assume(eq(fmt.Sprintf("(str_len %s)", r.S), fmt.Sprintf("(- %s %s)", hi, lo)))
	}
	return r
}

func (v *V) strToBytes(e *Env, s Val, t types.Type) Val {
	if v.d.mode != ModeInt {
		panic(unsupported("string to []byte in bv mode"))
	}
	v.d.declareFun("str_at", []string{"Str", "Int"}, "Int")
	base := v.alloc(e, "sb")
	comp, sort := v.memComp(tByte)
	arr := v.d.fresh("sbarr", "(Array Int Int)")
	v.d.usesQuant = true
	e.st.define(fmt.Sprintf("(forall ((qi Int)) (! (= (select %s qi) (str_at %s qi)) :pattern ((select %s qi))))", arr, s.S, arr))
	e.st.heapSet(v.d, comp, sort, fmt.Sprintf("(store %s %s %s)", e.st.heapGet(v.d, comp, sort), base, arr))
	ln := fmt.Sprintf("(str_len %s)", s.S)
	return Val{T: t, S: fmt.Sprintf("(mk_slice %s 0 %s %s)", base, ln, ln)}
}

func (v *V) bytesToStr(e *Env, b Val, t types.Type) Val {
	if v.d.mode != ModeInt {
		panic(unsupported("[]byte to string in bv mode"))
	}
	// string(b) is a function of the bytes: two conversions of the same bytes are the same string
	// (uninterpreted function of the backing array, offset and length)
	v.d.declareFun("str_at", []string{"Str", "Int"}, "Int")
	v.d.declareFun("str_from", []string{"(Array Int Int)", "Int", "Int"}, "Str")
	base, off, ln, _ := v.sliceParts(b.S)
	comp, sort := v.memComp(tByte)
	arr := e.st.heapRead(v.d, comp, sort, base)
	s := fmt.Sprintf("(str_from %s %s %s)", arr, off, ln)
	if e.inQuant == 0 {
		named := v.d.fresh("str", "Str")
		e.st.define(eq(named, s))
		e.st.define(eq(fmt.Sprintf("(str_len %s)", named), ln))
		v.d.usesQuant = true
		e.st.define(fmt.Sprintf("(forall ((qi Int)) (! (=> (and (<= 0 qi) (< qi %s)) (= (str_at %s qi) %s)) :pattern ((str_at %s qi))))", ln, named, v.sliceElem(e, b, "qi").S, named))
		return Val{T: t, S: named}
	}
	return Val{T: t, S: s}
}

func (v *V) funcRef(o *types.Func) string {
	name := "fn_" + sanitize(o.FullName())
	v.d.declare(name, fmt.Sprintf("(declare-const %s Int)", name))
	v.axioms = append(v.axioms, fmt.Sprintf("(> %s 0)", name))
	return name
}

var _ = big.NewInt
