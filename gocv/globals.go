package main

// Package-level variables with a known initial value.
//
// A package-level variable that is never assigned, never has its address taken and (for slices)
// never has an element assigned anywhere in its own package keeps the value of its initialiser.
// For an unexported variable that is a fact about the program (no other package can name it); for
// an exported one it is an assumption, recorded in the trusted base of the run.
//
// Supported initialisers: constant expressions; scalar expressions over constants and other such
// variables; slice literals whose elements are constants (lookup tables). A table gets a base
// reference of its own (distinct from every other table, allocated before the function starts) and
// its elements are facts about the initial memory.

import (
	"fmt"
	"go/ast"
	"go/constant"
	"go/token"
	"go/types"
	"strings"
)

type globalInfo struct {
	spec     *ast.ValueSpec
	idx      int
	pi       *PkgInfo
	assigned bool
}

func (p *Prog) globalInfoFor(o *types.Var) *globalInfo {
	if p.globals == nil {
		p.globals = map[*types.Var]*globalInfo{}
	}
	if gi, ok := p.globals[o]; ok {
		return gi
	}
	var gi *globalInfo
	defer func() { p.globals[o] = gi }()
	if o.Pkg() == nil {
		return nil
	}
	pi := p.pkgs[o.Pkg().Path()]
	if pi == nil || pi.info == nil {
		return nil
	}
	for _, f := range pi.files {
		for _, d := range f.Decls {
			gd, ok := d.(*ast.GenDecl)
			if !ok || gd.Tok != token.VAR {
				continue
			}
			for _, s := range gd.Specs {
				vs := s.(*ast.ValueSpec)
				for i, n := range vs.Names {
					if pi.info.Defs[n] == o && len(vs.Values) == len(vs.Names) {
						gi = &globalInfo{spec: vs, idx: i, pi: pi}
					}
				}
			}
		}
	}
	if gi == nil {
		return nil
	}
	// any write access in the declaring package?
	root := func(x ast.Expr) *ast.Ident {
		for {
			switch y := x.(type) {
			case *ast.ParenExpr:
				x = y.X
			case *ast.IndexExpr:
				x = y.X
			case *ast.SliceExpr:
				x = y.X
			case *ast.StarExpr:
				x = y.X
			case *ast.SelectorExpr:
				if id, ok := y.X.(*ast.Ident); ok {
					if _, isPkg := pi.info.ObjectOf(id).(*types.PkgName); isPkg {
						return y.Sel
					}
				}
				x = y.X
			case *ast.Ident:
				return y
			default:
				return nil
			}
		}
	}
	isO := func(x ast.Expr) bool {
		id := root(x)
		return id != nil && pi.info.ObjectOf(id) == o
	}
	for _, f := range pi.files {
		ast.Inspect(f, func(n ast.Node) bool {
			switch s := n.(type) {
			case *ast.AssignStmt:
				for _, l := range s.Lhs {
					if isO(l) {
						gi.assigned = true
					}
				}
			case *ast.IncDecStmt:
				if isO(s.X) {
					gi.assigned = true
				}
			case *ast.UnaryExpr:
				if s.Op == token.AND && isO(s.X) {
					gi.assigned = true
				}
			case *ast.RangeStmt:
				if s.Tok == token.ASSIGN && ((s.Key != nil && isO(s.Key)) || (s.Value != nil && isO(s.Value))) {
					gi.assigned = true
				}
			case *ast.CallExpr:
				// copy(table, ...) or append(table[:0], ...) write through the table
				if id, ok := s.Fun.(*ast.Ident); ok && (id.Name == "copy" || id.Name == "append") && len(s.Args) > 0 && isO(s.Args[0]) {
					if _, isSlice := o.Type().Underlying().(*types.Slice); isSlice {
						gi.assigned = true
					}
				}
			}
			return true
		})
	}
	return gi
}

// globalValue returns the initial value of a never-assigned package-level variable, if it can be
// determined.
func (v *V) globalValue(st *State, o *types.Var) (Val, bool) {
	if v.globalVals == nil {
		v.globalVals = map[*types.Var]Val{}
		v.globalBusy = map[*types.Var]bool{}
	}
	if val, ok := v.globalVals[o]; ok {
		return val, true
	}
	gi := v.prog.globalInfoFor(o)
	if gi == nil || gi.assigned || v.globalBusy[o] {
		return Val{}, false
	}
	v.globalBusy[o] = true
	defer delete(v.globalBusy, o)
	init := gi.spec.Values[gi.idx]
	name := o.Pkg().Name() + "." + o.Name()
	var val Val
	ok := false
	func() {
		defer func() {
			if r := recover(); r != nil {
				if _, isUns := r.(unsupportedErr); isUns {
					ok = false
					return
				}
				if _, isBind := r.(bindError); isBind {
					ok = false
					return
				}
				panic(r)
			}
		}()
		if tv, has := gi.pi.info.Types[init]; has && tv.Value != nil {
			e := &Env{v: v, st: st, info: gi.pi.info, pkg: gi.pi.types, bound: map[string]Val{}}
			val, ok = v.coerce(e, e.constVal(tv.Value, tv.Type), o.Type()), true
			return
		}
		if cl, isLit := unparen(init).(*ast.CompositeLit); isLit {
			if sl, isSlice := o.Type().Underlying().(*types.Slice); isSlice {
				val, ok = v.globalTable(st, gi, o, cl, sl)
			}
			return
		}
		switch o.Type().Underlying().(type) {
		case *types.Basic:
			// scalar expression over constants and other initial values: evaluated on a scratch
			// state so that it can have no effect; it must not read the heap
			scratch := st.clone()
			n0 := len(scratch.pc)
			e := &Env{v: v, st: scratch, info: gi.pi.info, pkg: gi.pi.types, bound: map[string]Val{}}
			e.inQuant = 1 // no naming of intermediate terms: the value must be a closed term, valid on every path
			v.dry++       // initialisation-time arithmetic: no obligations of the function under verification
			r := func() Val { defer func() { v.dry-- }(); return v.coerce(e, e.eval(init), o.Type()) }()
			// definitions of the fresh constants of intermediate results (floating-point operations)
			// become global facts: they are definitional, hence valid on every path
			for _, c := range scratch.pc[n0:] {
				v.nGdef++
				v.axioms = append(v.axioms, fmt.Sprintf("(! %s :named gdef%d)", c, v.nGdef))
			}
			val, ok = r, true
		}
	}()
	if !ok {
		return Val{}, false
	}
	if o.Exported() {
		v.trust(fmt.Sprintf("exported package variable %s keeps the value of its initialiser (it is never assigned in its own package)", name))
	}
	v.globalVals[o] = val
	return val, true
}

func (v *V) globalTable(st *State, gi *globalInfo, o *types.Var, cl *ast.CompositeLit, sl *types.Slice) (Val, bool) {
	var elems []string
	e := &Env{v: v, st: st, info: gi.pi.info, pkg: gi.pi.types, bound: map[string]Val{}}
	for _, x := range cl.Elts {
		if _, isKV := x.(*ast.KeyValueExpr); isKV {
			return Val{}, false
		}
		tv, has := gi.pi.info.Types[x]
		if !has || tv.Value == nil {
			return Val{}, false
		}
		if tv.Value.Kind() != constant.Int && tv.Value.Kind() != constant.Float && tv.Value.Kind() != constant.Bool {
			return Val{}, false
		}
		elems = append(elems, v.coerce(e, e.constVal(tv.Value, tv.Type), sl.Elem()).S)
	}
	if len(elems) > 512 {
		return Val{}, false
	}
	base := "gbase_" + sanitize(o.Pkg().Name()+"."+o.Name())
	v.d.declare(base, fmt.Sprintf("(declare-const %s Int)", base))
	entryAlloc := "0"
	if v.entry != nil {
		entryAlloc = v.entry.alloc
	} else {
		entryAlloc = st.alloc
	}
	v.axioms = append(v.axioms, fmt.Sprintf("(and (> %s 0) (<= %s %s))", base, base, entryAlloc))
	for _, other := range v.globalBases {
		v.axioms = append(v.axioms, fmt.Sprintf("(not (= %s %s))", base, other))
	}
	v.globalBases = append(v.globalBases, base)
	n := v.d.idxLit(int64(len(elems)))
	hdr := fmt.Sprintf("(mk_slice %s %s %s %s)", base, v.d.idxLit(0), n, n)
	comp, sort := v.memComp(sl.Elem())
	if _, ok := v.d.heapSorts[comp]; !ok {
		v.d.heapSorts[comp] = sort
	}
	h0 := heapInit(v.d, comp)
	var facts []string
	for k, c := range elems {
		facts = append(facts, fmt.Sprintf("(= (select (select %s %s) %s) %s)", h0, base, v.d.idxLit(int64(k)), c))
	}
	if len(facts) > 0 {
		v.axioms = append(v.axioms, and(facts...))
	}
	v.note(fmt.Sprintf("lookup table %s.%s: %d constant elements taken from its initialiser (never written in its package)", o.Pkg().Name(), o.Name(), len(elems)))
	_ = strings.Join
	return Val{T: o.Type(), S: hdr}, true
}
