package main

import (
	"fmt"
	"go/ast"
	"go/token"
	"go/types"
	"strings"
)

// State is the symbolic state on one path. It is cloned at forks.
type State struct {
	vars   map[types.Object]Val // program variables
	ghost  map[string]Val       // ghost variables / ghost parameters (by name)
	heap   map[string]string    // heap component -> SMT array term
	pc     []string             // path condition (conjunction)
	guards []string             // temporary guards (short-circuit evaluation)
	alloc  string               // allocation counter term
	defers []deferred
	boxed  map[types.Object]bool
	dead   bool
	names  map[string]string // term -> name of the constant defined equal to it on this path
	epoch  int               // >0 after a call with arbitrary side effects: untouched components are no longer their initial value
}

type deferred struct {
	call *ast.CallExpr
	lit  *ast.FuncLit
	env  *State
}

func (s *State) clone() *State {
	n := &State{alloc: s.alloc, boxed: s.boxed, dead: s.dead, epoch: s.epoch}
	n.vars = make(map[types.Object]Val, len(s.vars))
	for k, v := range s.vars {
		n.vars[k] = v
	}
	n.ghost = make(map[string]Val, len(s.ghost))
	for k, v := range s.ghost {
		n.ghost[k] = v
	}
	n.heap = make(map[string]string, len(s.heap))
	for k, v := range s.heap {
		n.heap[k] = v
	}
	if s.names != nil {
		n.names = make(map[string]string, len(s.names))
		for k, v := range s.names {
			n.names[k] = v
		}
	}
	n.pc = append([]string(nil), s.pc...)
	n.guards = append([]string(nil), s.guards...)
	n.defers = append([]deferred(nil), s.defers...)
	return n
}

func (s *State) assume(c string) {
	if c == "true" || c == "" {
		return
	}
	if len(s.guards) > 0 {
		c = implies(and(s.guards...), c)
	} else if strings.HasPrefix(c, "(and ") {
		// conjuncts are kept as separate hypotheses: the slicer then selects what a goal needs
		if g, ok := parseSx(c); ok && g.head() == "and" && len(g.kids) > 2 {
			for _, k := range g.kids[1:] {
				s.assume(k.String())
			}
			return
		}
	}
	// the same fact is often re-derived (type invariants of repeated reads): keep one copy.
	// Only the recent suffix is scanned; older duplicates are harmless.
	for i := len(s.pc) - 1; i >= 0 && i >= len(s.pc)-400; i-- {
		if s.pc[i] == c {
			return
		}
	}
	s.pc = append(s.pc, c)
}

func (s *State) cond() string {
	all := append(append([]string(nil), s.pc...), s.guards...)
	return and(all...)
}

// Obligation: prove goal under pc. One SMT query per instance.
type Obl struct {
	Name   string // stable name: func/kind#ord
	Kind   string
	Inst   int // path instance
	PC     []string
	Goal   string
	Pos    token.Position
	Desc   string
	NDecls int // number of declaration lines visible to this obligation
	// results
	Status  string // unsat(valid) | sat | unknown | timeout | error
	Solver  string
	TimeS   float64
	Model   string
	Output  string
	Checked []string // solvers that returned unsat (thorough cross-check)
	NoPre   bool     // skip skolemisation/instantiation pre-processing
	SliceDepth int   // >0: depth-limited slicing of the hypotheses (stage 0)
	Stage      string // which stage of the portfolio decided it
	AltPC      []string // vacuity guards: the path condition before the guarded assumptions
	Expect  string   // "unsat" (default, goal must be valid) or "sat" (vacuity guards)
}

func mergeStates(d *Decls, states []*State) *State {
	var live []*State
	for _, s := range states {
		if s != nil && !s.dead {
			live = append(live, s)
		}
	}
	if len(live) == 0 {
		return nil
	}
	if len(live) == 1 {
		return live[0]
	}
	// common pc prefix
	n := len(live[0].pc)
	for _, s := range live[1:] {
		k := 0
		for k < n && k < len(s.pc) && s.pc[k] == live[0].pc[k] {
			k++
		}
		n = k
	}
	res := live[0].clone()
	res.pc = append([]string(nil), live[0].pc[:n]...)
	res.guards = nil
	res.names = nil // names defined inside one branch are not defined on the others
	for _, s := range live {
		if s.epoch > res.epoch {
			res.epoch = s.epoch
		}
	}
	extra := make([][]string, len(live))
	for i, s := range live {
		for _, c := range s.pc[n:] {
			if hoistable(c) {
				// frame and closure facts only constrain heap versions created on this branch (and
				// hold of any real heap): they stay outside the disjunction, within reach of instantiation
				res.pc = append(res.pc, c)
				continue
			}
			extra[i] = append(extra[i], c)
		}
		if len(s.guards) > 0 {
			panic(unsupported("merge with active guards"))
		}
	}
	// variables
	for obj, v0 := range live[0].vars {
		same, present := true, true
		for _, s := range live[1:] {
			v, ok := s.vars[obj]
			if !ok {
				present = false
				break
			}
			if v.S != v0.S {
				same = false
			}
		}
		if !present {
			delete(res.vars, obj)
			continue
		}
		if same {
			continue
		}
		m := d.fresh("m_"+obj.Name(), d.sortOf(v0.T))
		for i, s := range live {
			extra[i] = append(extra[i], eq(m, s.vars[obj].S))
		}
		res.vars[obj] = Val{T: v0.T, S: m}
	}
	for name, v0 := range live[0].ghost {
		same, present := true, true
		for _, s := range live[1:] {
			v, ok := s.ghost[name]
			if !ok {
				present = false
				break
			}
			if v.S != v0.S {
				same = false
			}
		}
		if !present {
			delete(res.ghost, name)
			continue
		}
		if same {
			continue
		}
		m := d.fresh("mg_"+name, d.sortOf(v0.T))
		for i, s := range live {
			extra[i] = append(extra[i], eq(m, s.ghost[name].S))
		}
		res.ghost[name] = Val{T: v0.T, S: m}
	}
	// heap: union of components
	comps := map[string]bool{}
	for _, s := range live {
		for k := range s.heap {
			comps[k] = true
		}
	}
	for _, k := range sortedKeys(comps) {
		same := true
		t0, ok0 := live[0].heap[k]
		for _, s := range live[1:] {
			t, ok := s.heap[k]
			if ok != ok0 || t != t0 {
				same = false
			}
		}
		if same {
			continue
		}
		// a component missing in one state means "never touched": it still equals its initial symbol
		m := d.fresh("mh_"+k, d.heapSorts[k])
		for i, s := range live {
			t, ok := s.heap[k]
			if !ok {
				t = heapInit(d, k)
				if s.epoch > 0 {
					t = fmt.Sprintf("HE%d_%s", s.epoch, sanitize(k))
					d.declare(t, fmt.Sprintf("(declare-const %s %s)", t, d.heapSorts[k]))
				}
			}
			if s.epoch > res.epoch {
				res.epoch = s.epoch
			}
			extra[i] = append(extra[i], eq(m, t))
		}
		res.heap[k] = m
	}
	// alloc
	sameAlloc := true
	for _, s := range live[1:] {
		if s.alloc != live[0].alloc {
			sameAlloc = false
		}
	}
	if !sameAlloc {
		m := d.fresh("alloc", "Int")
		for i, s := range live {
			extra[i] = append(extra[i], eq(m, s.alloc))
		}
		res.alloc = m
	}
	var disj []string
	for i := range live {
		disj = append(disj, and(extra[i]...))
	}
	res.pc = append(res.pc, or(disj...))
	// defers: must agree
	for _, s := range live[1:] {
		if len(s.defers) != len(live[0].defers) {
			panic(unsupported("merge of paths with different defer stacks"))
		}
	}
	return res
}

func heapSortsReset(d *Decls) { d.heapSorts = map[string]string{} }

// readDep: a heap dependency of a spec function body: a whole component (ref == "") or the slot of
// one object (the component restricted to reference term ref).
type readDep struct {
	comp string
	ref  string
	seq  int // discovery order (structural: determined by the spec function body)
}

// heapRead returns (select H ref) for component comp and records the dependency: only the slot of
// ref when ref does not mention a quantified variable, the whole component otherwise.
func (s *State) heapRead(d *Decls, comp, sort, ref string) string {
	saved := d.trackReads
	d.trackReads = nil
	h := s.heapGet(d, comp, sort)
	d.trackReads = saved
	if saved != nil {
		if anyBoundTokRe.MatchString(ref) {
			if _, ok := saved[comp]; !ok {
				saved[comp] = readDep{comp: comp, seq: len(saved)}
			}
		} else if _, whole := saved[comp]; !whole {
			if _, ok := saved[comp+"@"+ref]; !ok {
				saved[comp+"@"+ref] = readDep{comp: comp, ref: ref, seq: len(saved)}
			}
		}
	}
	return "(select " + h + " " + ref + ")"
}

func heapInit(d *Decls, comp string) string {
	name := "H0_" + sanitize(comp)
	d.declare(name, fmt.Sprintf("(declare-const %s %s)", name, d.heapSorts[comp]))
	return name
}

func (s *State) heapGet(d *Decls, comp, sort string) string {
	if _, ok := d.heapSorts[comp]; !ok {
		d.heapSorts[comp] = sort
	}
	if d.trackReads != nil {
		if _, ok := d.trackReads[comp]; !ok {
			d.trackReads[comp] = readDep{comp: comp, seq: len(d.trackReads)}
		}
	}
	if t, ok := s.heap[comp]; ok {
		return t
	}
	t := heapInit(d, comp)
	if s.epoch > 0 {
		// first access after a call with arbitrary effects: not the initial value any more
		t = fmt.Sprintf("HE%d_%s", s.epoch, sanitize(comp))
		d.declare(t, fmt.Sprintf("(declare-const %s %s)", t, d.heapSorts[comp]))
	}
	s.heap[comp] = t
	if c := d.closureFact(comp, t, s.alloc); c != "" {
		s.define(c)
	}
	return t
}

func (s *State) heapSet(d *Decls, comp, sort, term string) {
	if _, ok := d.heapSorts[comp]; !ok {
		d.heapSorts[comp] = sort
	}
	// name the new version to keep terms small
	if len(s.guards) > 0 {
		panic(unsupported("heap mutation inside a short-circuit operand"))
	}
	if strings.HasPrefix(term, "(") {
		c := d.fresh("h_"+comp, sort)
		s.define(eq(c, term))
		term = c
	}
	s.heap[comp] = term
}

// define adds a definitional fact about a fresh constant (never guarded: it is always consistent).
func (s *State) define(c string) { s.pc = append(s.pc, c) }
