package main

// gocv check: decide one property = verify every function under contract tagged with it.

import (
	"encoding/json"
	"flag"
	"fmt"
	"os"
	"path/filepath"
	"regexp"
	"sort"
	"strconv"
	"strings"
	"time"
)

type KnownFinding struct {
	Property   string `json:"property"`
	Obligation string `json:"obligation"`        // obligation name (function/kind#ord)
	When       string `json:"when,omitempty"`    // spec condition on the inputs that characterises the failing inputs
	What       string `json:"what"`
	Status     string `json:"status"`            // "open" or "fixed"
	Commit     string `json:"commit,omitempty"`
}

type knownFile struct {
	Findings []KnownFinding `json:"findings"`
}

func loadKnown(path string) []KnownFinding {
	b, err := os.ReadFile(path)
	if err != nil {
		return nil
	}
	var kf knownFile
	if err := json.Unmarshal(b, &kf); err != nil {
		fmt.Println("warning: cannot parse", path, err)
	}
	return kf.Findings
}

// propPackages finds the package directories whose contract files mention the property.
func propPackages(repo, prop string) ([]string, error) {
	dirs, err := contractPackages(repo)
	if err != nil {
		return nil, err
	}
	re := regexp.MustCompile(`//@\s+props\b.*\b` + regexp.QuoteMeta(prop) + `\b`)
	var out []string
	for _, d := range dirs {
		matches, _ := filepath.Glob(filepath.Join(repo, d, "zz_verif_*.go"))
		for _, m := range matches {
			b, _ := os.ReadFile(m)
			if re.Match(b) {
				out = append(out, d)
				break
			}
		}
	}
	return out, nil
}

type oblGroup struct {
	Name   string
	Kind   string
	Obls   []*Obl
	OK     bool
	Func   *FuncResult
}

func groupObls(r *FuncResult) []*oblGroup {
	m := map[string]*oblGroup{}
	var order []string
	for _, o := range r.Obls {
		g, ok := m[o.Name]
		if !ok {
			g = &oblGroup{Name: o.Name, Kind: o.Kind, OK: true, Func: r}
			m[o.Name] = g
			order = append(order, o.Name)
		}
		g.Obls = append(g.Obls, o)
		if !oblOK(o) {
			g.OK = false
		}
	}
	sort.Strings(order)
	var out []*oblGroup
	for _, n := range order {
		out = append(out, m[n])
	}
	return out
}

func cmdCheck(args []string) int {
	fl := flag.NewFlagSet("check", flag.ExitOnError)
	repo := fl.String("repo", "/repo", "repository root")
	verif := fl.String("verif", "/verif", "verification directory")
	prop := fl.String("property", "", "property id")
	tier := fl.String("tier", "quick", "quick | thorough")
	verbose := fl.Bool("v", false, "verbose")
	fl.Parse(args)
	if *prop == "" {
		fmt.Println("check: -property required")
		return 2
	}
	t0 := time.Now()
	seed := 0
	if s := os.Getenv("VERIF_SEED"); s != "" {
		seed, _ = strconv.Atoi(s)
	}
	timeout := 40 * time.Second
	if *tier == "thorough" {
		timeout = 120 * time.Second
	}
	ev := &Evidence{PropertyID: *prop, Tier: *tier, Seed: seed, Level: "proof"}
	evPath := filepath.Join(*verif, "evidence", *prop+".json")
	os.MkdirAll(filepath.Dir(evPath), 0o755)
	replayDir := filepath.Join(*verif, "replays")
	os.MkdirAll(replayDir, 0o755)
	violations := 0
	violate := func(obligation, reason string, detail map[string]interface{}, noInput bool) {
		violations++
		name := fmt.Sprintf("%s-%s.json", *prop, sanitize(obligation))
		path := filepath.Join(replayDir, name)
		detail["property"] = *prop
		detail["obligation"] = obligation
		detail["reason"] = reason
		b, _ := json.MarshalIndent(detail, "", " ")
		os.WriteFile(path, b, 0o644)
		suffix := ""
		if noInput {
			suffix = " no-failing-input-found"
		}
		fmt.Printf("VIOLATION property=%s replay=%s obligation=%s reason=%s%s\n", *prop, path, obligation, reason, suffix)
	}
	finish := func() int {
		ev.WallS = time.Since(t0).Seconds()
		ev.Violations = violations
		b, _ := json.MarshalIndent(ev, "", " ")
		os.WriteFile(evPath, b, 0o644)
		if violations > 0 {
			return 1
		}
		return 0
	}

	pkgs, err := propPackages(*repo, *prop)
	if err != nil || len(pkgs) == 0 {
		violate("load", "no contract file mentions this property (contracts missing from the tree)", map[string]interface{}{"error": fmt.Sprint(err)}, true)
		return finish()
	}
	prog, err := loadProg(*repo, pkgs)
	if err != nil {
		violate("load", "cannot load packages", map[string]interface{}{"error": err.Error()}, true)
		return finish()
	}
	if len(prog.loadErrs) > 0 {
		violate("load", "type errors while loading the packages under contract", map[string]interface{}{"errors": prog.loadErrs}, true)
		return finish()
	}
	if len(prog.contracts.Errors) > 0 {
		violate("contracts", "contract files do not parse", map[string]interface{}{"errors": prog.contracts.Errors}, true)
		return finish()
	}
	known := loadKnown(filepath.Join(*verif, "known_findings.json"))
	expected := loadExpected(filepath.Join(*verif, "expected_obligations.json"))

	// functions under contract for this property
	var specs []*FuncSpec
	for _, k := range prog.contracts.Order {
		fs := prog.contracts.Funcs[k]
		if fs.Kind == "func" && contains(fs.Props, *prop) {
			specs = append(specs, fs)
		}
	}
	if len(specs) == 0 {
		violate("contracts", "no function under contract for this property", map[string]interface{}{}, true)
		return finish()
	}
	opts := SolveOpts{Timeout: timeout, Workers: 16, Thorough: *tier == "thorough"}
	var results []*FuncResult
	inRepoTrusted := map[string]bool{}
	for _, fs := range specs {
		if fs.Trusted != "" {
			// an in-repo function whose contract is assumed, not proved (stated reason)
			inRepoTrusted[fmt.Sprintf("in-repo function %s.%s: contract ASSUMED, not proved (%s)", shortPkg(fs.PkgPath), fs.Key, fs.Trusted)] = true
			continue
		}
		for _, m := range modesOf(fs) {
			r := verifyFunc(prog, fs, m, opts)
			results = append(results, r)
			if *verbose {
				printFuncResult(r, false)
			}
		}
	}
	// ---- evaluate ----
	cov := &ev.Coverage
	cov.CheckerCmd = fmt.Sprintf("gocv check -property %s -tier %s (VC generation from the typed AST of %s; solvers z3 4.8.12, z3-new 5.1.0, cvc5 1.0)", *prop, *tier, *repo)
	bySolver := map[string]int{}
	trusted := map[string]bool{}
	assumptions := map[string]bool{}
	abstractions := map[string]bool{}
	usedAssumed := map[string]bool{}
	seenNames := map[string]bool{}
	var solverTime float64
	for _, r := range results {
		fname := shortPkg(r.Pkg) + "." + r.Key
		fe := FuncEvidence{Function: fname, Mode: r.Mode, WallS: r.WallS}
		if r.Spec.Bounded != "" {
			fe.Bounded = r.Spec.Bounded
		}
		if r.ToolErr != "" {
			fe.Error = r.ToolErr
			cov.Functions = append(cov.Functions, fe)
			reason := "outside-verified-subset"
			if r.BindErr {
				reason = "contract-does-not-bind"
			}
			violate(fname, reason, map[string]interface{}{"function": fname, "detail": r.ToolErr}, true)
			continue
		}
		groups := groupObls(r)
		for _, g := range groups {
			fe.Obligations++
			cov.Queries += len(g.Obls)
			seenNames[g.Name+"@"+r.Mode] = true
			for _, o := range g.Obls {
				solverTime += o.TimeS
			}
			if g.OK {
				fe.Discharged++
				bySolver[g.Obls[0].Solver]++
				continue
			}
			// failing obligation: known finding?
			handled := false
			for _, kf := range known {
				if kf.Property == *prop && kf.Obligation == g.Name && kf.Status == "open" {
					if kf.When != "" {
						// re-verify with the known condition excluded: must pass
						if !reverifyExcluding(prog, r.Spec, modeOf(r.Mode), opts, kf.When, g.Name) {
							continue
						}
					}
					fmt.Printf("KNOWN-FINDING: property=%s %s: %s\n", *prop, g.Name, kf.What)
					cov.KnownFindings = append(cov.KnownFindings, g.Name)
					fe.Discharged++ // counted as decided (it fails only on the recorded finding)
					handled = true
					break
				}
			}
			if handled {
				continue
			}
			var bad *Obl
			for _, o := range g.Obls {
				if !oblOK(o) {
					bad = o
					break
				}
			}
			detail := map[string]interface{}{"function": fname, "kind": g.Kind, "description": bad.Desc, "solver_status": bad.Status, "solver": bad.Solver,
				"solver_output": truncate(bad.Output, 6000), "position": bad.Pos.String(), "path_instance": bad.Inst}
			neverPassed := false
			if exp, ok := expected[*prop]; ok {
				if !contains(exp, g.Name+"@"+r.Mode) {
					neverPassed = true
				}
			}
			detail["passed_on_baseline"] = !neverPassed
			reason := "obligation-failed"
			if bad.Expect == "sat" {
				reason = "vacuous-contract"
			} else if bad.Status != "sat" {
				reason = "obligation-undischarged(" + bad.Status + ")"
			}
			noInput := true
			if bad.Status == "sat" && bad.Expect != "sat" {
				if rp := tryReplay(prog, r, bad, *verif, *repo); rp != nil {
					for k, val := range rp.Detail {
						detail[k] = val
					}
					if rp.Confirmed {
						noInput = false
					}
				}
			}
			violate(g.Name, reason, detail, noInput)
		}
		for t := range r.V.trusted {
			trusted[t] = true
		}
		for t := range r.V.abstractions {
			abstractions[t] = true
		}
		for t := range r.V.notes {
			assumptions[t] = true
		}
		for k, fs := range r.V.usedContracts {
			if fs.Kind == "assume" || fs.Trusted != "" {
				usedAssumed[k] = true
			}
		}
		for k := range r.V.inlined {
			fe.Inlined = append(fe.Inlined, shortPkgDot(k))
		}
		sort.Strings(fe.Inlined)
		if r.Mode == "int" {
			assumptions["mode int: integers are mathematical, every arithmetic operation carries a no-overflow obligation (so the results hold for machine integers)"] = true
		} else {
			assumptions["mode bv: integers are exact fixed-width bit-vectors"] = true
		}
		cov.Functions = append(cov.Functions, fe)
		cov.Obligations += fe.Obligations
		cov.Discharged += fe.Discharged
	}
	// obligations that existed on the baseline but were not generated now: the contract no longer binds
	if exp, ok := expected[*prop]; ok {
		for _, n := range exp {
			if !seenNames[n] && structuralObl(n) {
				violate(n, "contract-does-not-bind", map[string]interface{}{"detail": "obligation was generated and discharged on the baseline tree but is no longer generated (function, loop or call site it is attached to has disappeared)"}, true)
			}
		}
	}
	for k := range usedAssumed {
		trusted["assumed contract: "+k] = true
	}
	for k := range inRepoTrusted {
		trusted[k] = true
	}
	trusted["gocv VC generator (Go semantics of the verified subset, DESIGN.md 2.3) and the SMT solvers"] = true
	cov.TrustedBase = sortedSet(trusted)
	cov.Abstractions = sortedSet(abstractions)
	cov.BySolver = bySolver
	cov.SolverTimeS = solverTime
	ev.Assumptions = sortedSet(assumptions)
	// samples: a few obligations
	for _, r := range results {
		for _, g := range groupObls(r) {
			if len(cov.Samples) < 6 && (g.Kind == "post" || g.Kind == "inv-preserve" || g.Kind == "call-pre" || g.Kind == "call-site") {
				cov.Samples = append(cov.Samples, map[string]interface{}{"obligation": g.Name, "kind": g.Kind, "what": g.Obls[0].Desc, "solver": g.Obls[0].Solver, "status": g.Obls[0].Status, "hypotheses": len(g.Obls[0].PC)})
			}
		}
	}
	if len(cov.Samples) == 0 {
		for _, r := range results {
			for _, g := range groupObls(r) {
				if len(cov.Samples) < 3 {
					cov.Samples = append(cov.Samples, map[string]interface{}{"obligation": g.Name, "kind": g.Kind, "what": g.Obls[0].Desc})
				}
			}
		}
	}
	if os.Getenv("GOCV_REBASELINE") == "1" && violations == 0 {
		var names []string
		for n := range seenNames {
			names = append(names, n)
		}
		sort.Strings(names)
		expected[*prop] = names
		saveExpected(filepath.Join(*verif, "expected_obligations.json"), expected)
	}
	rc := finish()
	fmt.Printf("property %s: %d functions, %d/%d obligations discharged, %d queries, %.1fs, violations=%d\n", *prop, len(cov.Functions), cov.Discharged, cov.Obligations, cov.Queries, ev.WallS, violations)
	return rc
}

func structuralObl(name string) bool {
	for _, k := range []string{"/post#", "/inv-", "/call-pre#", "/call-site#", "/decreases#", "/pre-sat#"} {
		if strings.Contains(name, k) {
			return true
		}
	}
	return false
}

func modeOf(s string) Mode {
	if s == "bv" {
		return ModeBV
	}
	return ModeInt
}

func reverifyExcluding(prog *Prog, fs *FuncSpec, mode Mode, opts SolveOpts, when, oblName string) bool {
	e, err := parseSpecExpr("!(" + when + ")")
	if err != nil {
		return false
	}
	cp := *fs
	cp.Requires = append(append([]Clause(nil), fs.Requires...), Clause{Src: "!(" + when + ")", Expr: e, Line: "known_findings.json"})
	r := verifyFunc(prog, &cp, mode, opts)
	if r.ToolErr != "" {
		return false
	}
	for _, g := range groupObls(r) {
		if g.Name == oblName {
			return g.OK
		}
	}
	return true
}

func truncate(s string, n int) string {
	if len(s) > n {
		return s[:n] + "...[truncated]"
	}
	return s
}

func shortPkg(p string) string {
	return strings.TrimPrefix(p, "github.com/blevesearch/bleve/v2/")
}

func shortPkgDot(k string) string { return shortPkg(k) }

func sortedSet(m map[string]bool) []string {
	out := make([]string, 0, len(m))
	for k := range m {
		out = append(out, k)
	}
	sort.Strings(out)
	return out
}

func loadExpected(path string) map[string][]string {
	m := map[string][]string{}
	b, err := os.ReadFile(path)
	if err == nil {
		json.Unmarshal(b, &m)
	}
	return m
}

func saveExpected(path string, m map[string][]string) {
	b, _ := json.MarshalIndent(m, "", " ")
	os.WriteFile(path, b, 0o644)
}

// ---- evidence ----

type FuncEvidence struct {
	Function    string   `json:"function"`
	Mode        string   `json:"mode"`
	Obligations int      `json:"obligations"`
	Discharged  int      `json:"discharged"`
	WallS       float64  `json:"wall_s"`
	Error       string   `json:"error,omitempty"`
	Bounded     string   `json:"bounded,omitempty"`
	Inlined     []string `json:"inlined_callees,omitempty"`
}

type Coverage struct {
	Obligations   int                      `json:"obligations"`
	Discharged    int                      `json:"discharged"`
	Queries       int                      `json:"solver_queries"`
	CheckerCmd    string                   `json:"checker_cmd"`
	TrustedBase   []string                 `json:"trusted_base"`
	Functions     []FuncEvidence           `json:"functions_under_contract"`
	BySolver      map[string]int           `json:"discharged_by_solver"`
	SolverTimeS   float64                  `json:"solver_time_s"`
	Abstractions  []string                 `json:"abstractions"`
	KnownFindings []string                 `json:"known_findings_reported,omitempty"`
	Samples       []map[string]interface{} `json:"samples"`
	Replays       []string                 `json:"replays,omitempty"`
}

type Evidence struct {
	PropertyID  string   `json:"property_id"`
	Tier        string   `json:"tier"`
	Seed        int      `json:"seed"`
	Level       string   `json:"level"`
	Coverage    Coverage `json:"coverage"`
	Assumptions []string `json:"assumptions"`
	WallS       float64  `json:"wall_s"`
	Violations  int      `json:"violations"`
}

type ReplayResult struct {
	Confirmed bool
	Detail    map[string]interface{}
}

func tryReplay(prog *Prog, r *FuncResult, o *Obl, verif, repo string) *ReplayResult {
	return replayObligation(prog, r, o, verif, repo)
}
