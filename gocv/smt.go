package main

// SMT-level helpers: sorts for Go types, literals, declarations.

import (
	"fmt"
	"go/constant"
	"go/types"
	"math"
	"math/big"
	"sort"
	"strings"
)

type Mode int

const (
	ModeBV  Mode = iota // every Go integer is a bit-vector of its width (exact)
	ModeInt             // mathematical Int plus no-overflow obligations
)

func (m Mode) String() string {
	if m == ModeBV {
		return "bv"
	}
	return "int"
}

// Val is a symbolic value: a Go type plus an SMT term of the sort of that type.
type Val struct {
	T types.Type
	S string
	C constant.Value // non-nil for (untyped or typed) constants
}

// Decls collects SMT declarations in order.
type Decls struct {
	mode     Mode
	lines    []string
	declared map[string]bool
	nfresh   int
	structs  map[string]*types.Struct // datatype name -> struct
	usesFP   bool
	usesQuant bool
	heapSorts map[string]string
	trackReads map[string]readDep // when non-nil, heap reads are recorded (for opaque spec functions)
	intComps  map[string][2]string // integer-valued components (int mode): the Go type's value range
	intKind   map[string]string
	refComps  map[string]string  // components whose values are references: "field" or "mem" (heap closure: stored references are allocated)
}

func newDecls(mode Mode) *Decls {
	d := &Decls{mode: mode, declared: map[string]bool{}, structs: map[string]*types.Struct{}, heapSorts: map[string]string{}, refComps: map[string]string{}, intComps: map[string][2]string{}, intKind: map[string]string{}}
	idx := d.idxSort()
	d.lines = append(d.lines,
		"(declare-sort Str 0)",
		fmt.Sprintf("(declare-datatypes ((Slice 0)) (((mk_slice (sl_base Int) (sl_off %s) (sl_len %s) (sl_cap %s)))))", idx, idx, idx),
		"(declare-fun str_len (Str) Int)",
		"(declare-fun str_lt (Str Str) Bool)",
		"(declare-fun dyn_type (Int) Int)",
	)
	return d
}

func (d *Decls) idxSort() string {
	if d.mode == ModeBV {
		return "(_ BitVec 64)"
	}
	return "Int"
}

func (d *Decls) declare(name, line string) {
	if d.declared[name] {
		return
	}
	d.declared[name] = true
	d.lines = append(d.lines, line)
}

func (d *Decls) fresh(prefix, sort string) string {
	d.nfresh++
	name := fmt.Sprintf("%s!%d", sanitize(prefix), d.nfresh)
	d.lines = append(d.lines, fmt.Sprintf("(declare-const %s %s)", name, sort))
	return name
}

func (d *Decls) declareFun(name string, args []string, ret string) {
	d.declare(name, fmt.Sprintf("(declare-fun %s (%s) %s)", name, strings.Join(args, " "), ret))
}

func sanitize(s string) string {
	var b strings.Builder
	for _, r := range s {
		switch {
		case r >= 'a' && r <= 'z', r >= 'A' && r <= 'Z', r >= '0' && r <= '9', r == '_', r == '.', r == '$':
			b.WriteRune(r)
		default:
			b.WriteRune('_')
		}
	}
	if b.Len() == 0 {
		return "v"
	}
	return b.String()
}

// intInfo returns (bits, signed, ok) for integer basic types.
func intInfo(t types.Type) (int, bool, bool) {
	b, ok := t.Underlying().(*types.Basic)
	if !ok {
		return 0, false, false
	}
	switch b.Kind() {
	case types.Int8:
		return 8, true, true
	case types.Int16:
		return 16, true, true
	case types.Int32:
		return 32, true, true
	case types.Int64, types.Int:
		return 64, true, true
	case types.Uint8:
		return 8, false, true
	case types.Uint16:
		return 16, false, true
	case types.Uint32:
		return 32, false, true
	case types.Uint64, types.Uint, types.Uintptr:
		return 64, false, true
	case types.UntypedInt, types.UntypedRune:
		return 64, true, true
	}
	return 0, false, false
}

func isInt(t types.Type) bool { _, _, ok := intInfo(t); return ok }

func isUntyped(t types.Type) bool {
	b, ok := t.(*types.Basic)
	return ok && b.Info()&types.IsUntyped != 0
}

func isFloat(t types.Type) bool {
	b, ok := t.Underlying().(*types.Basic)
	return ok && b.Info()&types.IsFloat != 0
}

func floatBits(t types.Type) int {
	b, ok := t.Underlying().(*types.Basic)
	if ok && b.Kind() == types.Float32 {
		return 32
	}
	return 64
}

func isBool(t types.Type) bool {
	b, ok := t.Underlying().(*types.Basic)
	return ok && b.Info()&types.IsBoolean != 0
}

func isString(t types.Type) bool {
	b, ok := t.Underlying().(*types.Basic)
	return ok && b.Info()&types.IsString != 0
}

// isRef: types represented by an Int reference (nil == 0).
func isRef(t types.Type) bool {
	switch u := t.Underlying().(type) {
	case *types.Pointer, *types.Map, *types.Chan, *types.Signature, *types.Interface:
		return true
	case *types.Basic:
		return u.Kind() == types.UnsafePointer || u.Kind() == types.UntypedNil
	}
	return false
}

func intRange(bits int, signed bool) (*big.Int, *big.Int) {
	one := big.NewInt(1)
	if signed {
		hi := new(big.Int).Lsh(one, uint(bits-1))
		lo := new(big.Int).Neg(hi)
		hi.Sub(hi, one)
		return lo, hi
	}
	hi := new(big.Int).Lsh(one, uint(bits))
	hi.Sub(hi, one)
	return big.NewInt(0), hi
}

// sortOf maps a Go type to its SMT sort under the mode of d.
func (d *Decls) sortOf(t types.Type) string {
	switch u := t.Underlying().(type) {
	case *types.Basic:
		switch {
		case u.Info()&types.IsBoolean != 0:
			return "Bool"
		case u.Info()&types.IsInteger != 0:
			if d.mode == ModeInt {
				return "Int"
			}
			bits, _, _ := intInfo(u)
			return fmt.Sprintf("(_ BitVec %d)", bits)
		case u.Info()&types.IsFloat != 0:
			return fmt.Sprintf("(_ BitVec %d)", floatBits(u))
		case u.Info()&types.IsString != 0:
			return "Str"
		case u.Kind() == types.UnsafePointer || u.Kind() == types.UntypedNil:
			return "Int"
		}
	case *types.Pointer, *types.Map, *types.Chan, *types.Signature, *types.Interface:
		return "Int"
	case *types.Slice:
		return "Slice"
	case *types.Array:
		return fmt.Sprintf("(Array %s %s)", d.idxSort(), d.sortOf(u.Elem()))
	case *types.Struct:
		return d.structSort(t, u)
	case *types.Tuple:
		return "Tuple"
	case *types.TypeParam:
		return "Int"
	}
	panic(unsupported("type " + t.String()))
}

func typeKey(t types.Type) string {
	// package name, plus a path digest for packages whose name alone is ambiguous (internal/sync vs sync)
	return sanitize(types.TypeString(t, func(p *types.Package) string {
		if strings.Contains(p.Path(), "internal/") {
			return strings.ReplaceAll(p.Path(), "/", "_")
		}
		return p.Name()
	}))
}

func (d *Decls) structSort(t types.Type, st *types.Struct) string {
	name := "S_" + typeKey(t)
	if _, ok := t.(*types.Named); !ok {
		name = fmt.Sprintf("S_anon%d_%s", st.NumFields(), sanitize(fmt.Sprintf("%p", st)))
	}
	if d.declared[name] {
		return name
	}
	d.declared[name] = true // before recursion (no recursive by-value structs in Go anyway)
	d.structs[name] = st
	var fs []string
	for i := 0; i < st.NumFields(); i++ {
		f := st.Field(i)
		fn := sanitize(f.Name())
		if f.Name() == "_" {
			// blank fields (padding, noCopy markers) cannot be selected: any unique accessor name will do
			fn = fmt.Sprintf("blank%d", i)
		}
		fs = append(fs, fmt.Sprintf("(%s_%s %s)", name, fn, d.sortOf(f.Type())))
	}
	if len(fs) == 0 {
		fs = append(fs, fmt.Sprintf("(%s__dummy Bool)", name))
	}
	d.lines = append(d.lines, fmt.Sprintf("(declare-datatypes ((%s 0)) (((mk_%s %s))))", name, name, strings.Join(fs, " ")))
	return name
}

// ---- literals ----

func (d *Decls) intLit(v *big.Int, t types.Type) string {
	if d.mode == ModeInt {
		if v.Sign() < 0 {
			return fmt.Sprintf("(- %s)", new(big.Int).Neg(v).String())
		}
		return v.String()
	}
	bits, _, ok := intInfo(t)
	if !ok {
		bits = 64
	}
	return bvLit(v, bits)
}

func bvLit(v *big.Int, bits int) string {
	m := new(big.Int).Lsh(big.NewInt(1), uint(bits))
	x := new(big.Int).Mod(v, m)
	if bits%4 == 0 {
		s := x.Text(16)
		return "#x" + strings.Repeat("0", bits/4-len(s)) + s
	}
	s := x.Text(2)
	return "#b" + strings.Repeat("0", bits-len(s)) + s
}

func (d *Decls) idxLit(n int64) string {
	if d.mode == ModeInt {
		if n < 0 {
			return fmt.Sprintf("(- %d)", -n)
		}
		return fmt.Sprintf("%d", n)
	}
	return bvLit(big.NewInt(n), 64)
}

func floatLit(f float64, bits int) string {
	if bits == 32 {
		return bvLit(new(big.Int).SetUint64(uint64(math.Float32bits(float32(f)))), 32)
	}
	return bvLit(new(big.Int).SetUint64(math.Float64bits(f)), 64)
}

func toFP(bitsTerm string, bits int) string {
	if bits == 32 {
		return fmt.Sprintf("((_ to_fp 8 24) %s)", bitsTerm)
	}
	return fmt.Sprintf("((_ to_fp 11 53) %s)", bitsTerm)
}

// ---- boolean helpers ----

func and(xs ...string) string {
	var ys []string
	for _, x := range xs {
		if x == "true" || x == "" {
			continue
		}
		if x == "false" {
			return "false"
		}
		ys = append(ys, x)
	}
	switch len(ys) {
	case 0:
		return "true"
	case 1:
		return ys[0]
	}
	return "(and " + strings.Join(ys, " ") + ")"
}

func or(xs ...string) string {
	var ys []string
	for _, x := range xs {
		if x == "false" || x == "" {
			continue
		}
		if x == "true" {
			return "true"
		}
		ys = append(ys, x)
	}
	switch len(ys) {
	case 0:
		return "false"
	case 1:
		return ys[0]
	}
	return "(or " + strings.Join(ys, " ") + ")"
}

func not(x string) string {
	switch x {
	case "true":
		return "false"
	case "false":
		return "true"
	}
	if strings.HasPrefix(x, "(not ") && balanced(x[5:len(x)-1]) {
		return x[5 : len(x)-1]
	}
	return "(not " + x + ")"
}

func balanced(s string) bool {
	depth := 0
	for i, c := range s {
		switch c {
		case '(':
			depth++
		case ')':
			depth--
			if depth < 0 {
				return false
			}
			if depth == 0 && i != len(s)-1 {
				return false
			}
		case ' ':
			if depth == 0 {
				return false
			}
		}
	}
	return depth == 0
}

func implies(a, b string) string {
	if a == "true" {
		return b
	}
	if b == "true" || a == "false" {
		return "true"
	}
	return "(=> " + a + " " + b + ")"
}

func eq(a, b string) string {
	if a == b {
		return "true"
	}
	return "(= " + a + " " + b + ")"
}

func ite(c, a, b string) string {
	if c == "true" {
		return a
	}
	if c == "false" {
		return b
	}
	if a == b {
		return a
	}
	return "(ite " + c + " " + a + " " + b + ")"
}

type unsupportedErr struct{ msg string }

func (e unsupportedErr) Error() string { return "unsupported: " + e.msg }
func unsupported(format string, a ...interface{}) unsupportedErr {
	return unsupportedErr{fmt.Sprintf(format, a...)}
}

func sortedKeys[V any](m map[string]V) []string {
	ks := make([]string, 0, len(m))
	for k := range m {
		ks = append(ks, k)
	}
	sort.Strings(ks)
	return ks
}

// arrayRange returns the range sort of "(Array Dom Rng)".
func arrayRange(s string) string {
	p, ok := parseSx(s)
	if !ok || p.head() != "Array" || len(p.kids) != 3 {
		return s
	}
	return p.kids[2].String()
}

// isRefLike: values of the type are references into the heap model (Int refs bounded by the allocation counter).
func isRefLike(t types.Type) bool {
	switch t.Underlying().(type) {
	case *types.Pointer, *types.Interface, *types.Map, *types.Chan, *types.Signature:
		return true
	}
	return false
}

// closureFact: every reference stored in a fresh version of a reference-valued component is
// allocated (0 <= r <= alloc). Holds of any reachable Go heap; stores of allocated references
// preserve it by array reasoning, so it is only stated for fresh (initial / havocked) versions.
func (d *Decls) closureFact(comp, arr, alloc string) string {
	if rng, ok := d.intComps[comp]; ok {
		// integer-valued component: stored values are within the Go type's range
		d.usesQuant = true
		if d.intKind[comp] == "mem" {
			return fmt.Sprintf("(forall ((qo Int) (qx %s)) (! (and (<= %s (select (select %s qo) qx)) (<= (select (select %s qo) qx) %s)) :pattern ((select (select %s qo) qx))))", d.idxSort(), rng[0], arr, arr, rng[1], arr)
		}
		return fmt.Sprintf("(forall ((qo Int)) (! (and (<= %s (select %s qo)) (<= (select %s qo) %s)) :pattern ((select %s qo))))", rng[0], arr, arr, rng[1], arr)
	}
	switch d.refComps[comp] {
	case "field":
		d.usesQuant = true
		return fmt.Sprintf("(forall ((qo Int)) (! (and (<= 0 (select %s qo)) (<= (select %s qo) %s)) :pattern ((select %s qo))))", arr, arr, alloc, arr)
	case "mem":
		d.usesQuant = true
		return fmt.Sprintf("(forall ((qo Int) (qx %s)) (! (and (<= 0 (select (select %s qo) qx)) (<= (select (select %s qo) qx) %s)) :pattern ((select (select %s qo) qx))))", d.idxSort(), arr, arr, alloc, arr)
	}
	return ""
}

// noteIntComp records the value range of an integer-typed component (int mode only).
func (d *Decls) noteIntComp(comp, kind string, t types.Type) {
	if d.mode != ModeInt {
		return
	}
	b, ok := t.Underlying().(*types.Basic)
	if !ok || b.Info()&types.IsInteger == 0 {
		return
	}
	bits, signed, ok := intInfo(t)
	if !ok {
		return
	}
	lo, hi := intRange(bits, signed)
	d.intComps[comp] = [2]string{d.intLit(lo, t), d.intLit(hi, t)}
	d.intKind[comp] = kind
}
