package main

// Function literals passed to functions that are called by contract (not inlined): the callee may
// run the literal any number of times, so every variable of the enclosing function that the literal
// assigns gets an arbitrary value after the call. (What the literal does to the heap is covered by
// the callee's modifies clause, as for any other effect of the callee.)

import (
	"go/ast"
	"go/token"
	"go/types"
)

func (v *V) havocClosureWrites(e *Env, call *ast.CallExpr) {
	if e.info == nil {
		return
	}
	for _, a := range call.Args {
		lit, ok := unparen(a).(*ast.FuncLit)
		if !ok {
			continue
		}
		seen := map[*types.Var]bool{}
		var written []*types.Var
		note := func(x ast.Expr) {
			for {
				switch y := x.(type) {
				case *ast.ParenExpr:
					x = y.X
					continue
				case *ast.Ident:
					if o, ok := e.info.ObjectOf(y).(*types.Var); ok && o != nil && !seen[o] {
						// declared outside the literal and not a package-level variable
						if (o.Pos() < lit.Pos() || o.Pos() > lit.End()) && o.Parent() != nil && o.Pkg() != nil && o.Parent() != o.Pkg().Scope() {
							seen[o] = true
							written = append(written, o)
						}
					}
				}
				return
			}
		}
		ast.Inspect(lit.Body, func(n ast.Node) bool {
			switch s := n.(type) {
			case *ast.AssignStmt:
				for _, l := range s.Lhs {
					note(l)
				}
			case *ast.IncDecStmt:
				note(s.X)
			case *ast.RangeStmt:
				if s.Tok == token.ASSIGN {
					if s.Key != nil {
						note(s.Key)
					}
					if s.Value != nil {
						note(s.Value)
					}
				}
			case *ast.UnaryExpr:
				if s.Op == token.AND {
					note(s.X)
				}
			}
			return true
		})
		for _, o := range written {
			if _, known := e.st.vars[o]; !known {
				continue
			}
			nv := v.freshVal(e.st, o.Name(), o.Type())
			if e.st.boxed != nil && e.st.boxed[o] {
				if _, isStruct := o.Type().Underlying().(*types.Struct); isStruct {
					panic(unsupported("closure passed to a contract call assigns the struct variable %s", o.Name()))
				}
				v.cellWrite(e.st, e.st.vars[o].S, nv)
			} else {
				e.st.vars[o] = nv
			}
			v.note("variable " + o.Name() + " is assigned by a function literal passed to " + types.ExprString(call.Fun) + ": arbitrary after the call")
		}
	}
}

// hoistable: engine-generated frame and heap-closure facts (binder qo). They constrain only heap
// versions created at the point where they were generated and are true of every real heap, so when
// paths are merged they can stay outside the disjunction of the branch-specific facts.
func hoistable(c string) bool {
	return len(c) > 17 && c[:17] == "(forall ((qo Int)"
}
