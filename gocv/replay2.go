package main

// Reconstruction of concrete Go values from a solver model (second generation: pointers to
// structs, slices of pointers). Values that cannot be reconstructed faithfully make the replay
// "not attempted"; lossy parts (strings, interfaces, maps: zero values) are recorded.

import (
	"fmt"
	"go/types"
	"math/big"
	"strings"
)

type modelCtx struct {
	v      *V
	script string
	pkg    *types.Package
	lossy  []string
	imports map[string]string // package path -> name
	budget int
}

func (m *modelCtx) typeStr(t types.Type) string {
	return types.TypeString(t, func(p *types.Package) string {
		if p == m.pkg {
			return ""
		}
		m.imports[p.Path()] = p.Name()
		return p.Name()
	})
}

func (m *modelCtx) value1(term string) (string, bool) {
	vals, ok := solverValues(m.script, []string{term})
	if !ok {
		return "", false
	}
	r, ok := vals[term]
	return r, ok
}

// goValue builds a Go expression for the SMT term of Go type t as it is in the ENTRY state.
func (m *modelCtx) goValue(term string, t types.Type, depth int) (string, string) {
	v := m.v
	m.budget--
	if m.budget < 0 {
		return "", "model too large to replay"
	}
	switch u := t.Underlying().(type) {
	case *types.Basic:
		switch {
		case u.Info()&types.IsBoolean != 0:
			raw, ok := m.value1(term)
			if !ok {
				return "", "no model value"
			}
			return raw, ""
		case u.Info()&types.IsInteger != 0:
			raw, ok := m.value1(term)
			if !ok {
				return "", "no model value"
			}
			b, ok := parseSMTInt(raw)
			if !ok {
				return "", "cannot parse model value " + raw
			}
			return fmt.Sprintf("%s(%s)", m.typeStr(t), goIntLit(b, t)), ""
		case u.Info()&types.IsFloat != 0:
			raw, ok := m.value1(term)
			if !ok {
				return "", "no model value"
			}
			b, ok := parseSMTInt(raw)
			if !ok {
				return "", "cannot parse model value " + raw
			}
			m.imports["math"] = "math"
			if floatBits(t) == 32 {
				return fmt.Sprintf("%s(math.Float32frombits(0x%x))", m.typeStr(t), b.Uint64()), ""
			}
			return fmt.Sprintf("%s(math.Float64frombits(0x%x))", m.typeStr(t), b.Uint64()), ""
		case u.Info()&types.IsString != 0:
			m.lossy = append(m.lossy, "string value replaced by \"\"")
			return fmt.Sprintf("%s(\"\")", m.typeStr(t)), ""
		}
	case *types.Pointer:
		raw, ok := m.value1(term)
		if !ok {
			return "", "no model value"
		}
		b, ok := parseSMTInt(raw)
		if !ok {
			return "", "cannot parse reference " + raw
		}
		if b.Sign() == 0 {
			return fmt.Sprintf("(%s)(nil)", m.typeStr(t)), ""
		}
		st, ok := u.Elem().Underlying().(*types.Struct)
		if !ok {
			// pointer to a basic value
			comp, sort := v.cellComp(u.Elem())
			inner, why := m.goValue(fmt.Sprintf("(select %s %s)", v.entry.heapGet(v.d, comp, sort), term), u.Elem(), depth+1)
			if why != "" {
				return "", why
			}
			return fmt.Sprintf("func() %s { x := %s; return &x }()", m.typeStr(t), inner), ""
		}
		if depth > 2 {
			m.lossy = append(m.lossy, "deep object replaced by an empty one")
			return fmt.Sprintf("&%s{}", m.typeStr(u.Elem())), ""
		}
		var fields []string
		for i := 0; i < st.NumFields(); i++ {
			f := st.Field(i)
			comp, sort := v.fieldComp(u.Elem(), f)
			if _, known := v.d.heapSorts[comp]; !known {
				continue // never read by the function: irrelevant
			}
			if !f.Exported() && f.Pkg() != m.pkg {
				continue
			}
			fterm := fmt.Sprintf("(select %s %s)", v.entry.heapGet(v.d, comp, sort), term)
			fv, why := m.goValue(fterm, f.Type(), depth+1)
			if why != "" {
				m.lossy = append(m.lossy, "field "+f.Name()+": "+why)
				continue
			}
			fields = append(fields, f.Name()+": "+fv)
		}
		return fmt.Sprintf("&%s{%s}", m.typeStr(u.Elem()), strings.Join(fields, ", ")), ""
	case *types.Slice:
		lenT, baseT := "(sl_len "+term+")", "(sl_base "+term+")"
		vals, ok := solverValues(m.script, []string{lenT, baseT})
		if !ok {
			return "", "no model values"
		}
		n, ok1 := parseSMTInt(vals[lenT])
		b, ok2 := parseSMTInt(vals[baseT])
		if !ok1 || !ok2 {
			return "", "cannot parse slice model"
		}
		if b.Sign() == 0 {
			return fmt.Sprintf("%s(nil)", m.typeStr(t)), ""
		}
		if n.Cmp(big.NewInt(256)) > 0 {
			return "", "model slice too long to replay"
		}
		comp, sort := v.memComp(u.Elem())
		mem := v.entry.heapGet(v.d, comp, sort)
		var elems []string
		for i := int64(0); i < n.Int64(); i++ {
			et := fmt.Sprintf("(select (select %s %s) %s)", mem, baseT, v.iadd("(sl_off "+term+")", v.d.idxLit(i)))
			ev, why := m.goValue(et, u.Elem(), depth+1)
			if why != "" {
				return "", why
			}
			elems = append(elems, ev)
		}
		return fmt.Sprintf("%s{%s}", m.typeStr(t), strings.Join(elems, ", ")), ""
	case *types.Interface, *types.Map, *types.Signature, *types.Chan:
		m.lossy = append(m.lossy, "value of type "+t.String()+" replaced by nil")
		return fmt.Sprintf("(%s)(nil)", m.typeStr(t)), ""
	}
	return "", "type " + t.String() + " cannot be reconstructed from a model"
}

// concreteInputs2 extracts Go expressions for the function's inputs from the model of o.
func concreteInputs2(r *FuncResult, o *Obl, script string) ([]inputVal, *modelCtx, string) {
	v := r.V
	fi := v.fi
	var params []*types.Var
	if rv := v.recvVar(fi); rv != nil {
		params = append(params, rv)
	}
	for i := 0; i < fi.sig.Params().Len(); i++ {
		pv := v.paramVar(fi, i)
		if pv == nil {
			return nil, nil, "unnamed parameter"
		}
		params = append(params, pv)
	}
	m := &modelCtx{v: v, script: script, pkg: fi.pkg.types, imports: map[string]string{}, budget: 400}
	var ins []inputVal
	for _, p := range params {
		ev, ok := v.entry.vars[p]
		if !ok {
			return nil, nil, "parameter without entry value"
		}
		if v.entry.boxed != nil && v.entry.boxed[p] {
			return nil, nil, "address-taken parameter"
		}
		g, why := m.goValue(ev.S, p.Type(), 0)
		if why != "" {
			return nil, nil, why
		}
		ins = append(ins, inputVal{p.Name(), p.Type(), g})
	}
	return ins, m, ""
}
